"""CLI: /venv/bin/python /verif/simkit/check.py <ID> --tier quick|thorough"""
import importlib
import os
import sys

HERE = os.path.dirname(os.path.dirname(os.path.abspath(__file__)))
if HERE not in sys.path:
    sys.path.insert(0, HERE)

# harness itself runs under a fixed hash seed (independent of the SUT hash seed, which is a run parameter)
if os.environ.get("PYTHONHASHSEED") != "0":
    os.environ["PYTHONHASHSEED"] = "0"
    os.execv(sys.executable, [sys.executable] + sys.argv)

from simkit import checklib  # noqa
from simkit.orch import Orchestrator  # noqa

LEVELS = {"C07": "fault_enumeration"}
DEFAULT_BUDGET = {"quick": None, "thorough": 1500.0}


def main():
    a = checklib.parse_cli()
    prop = a.prop.upper()
    if a.replay:
        from simkit import replay
        sys.exit(replay.main([a.replay]))
    budget = a.budget if a.budget is not None else DEFAULT_BUDGET[a.tier]
    chk = checklib.Check(prop, a.tier, a.seed, level=LEVELS.get(prop, "exploration"), budget=budget)
    mod = importlib.import_module("simkit.checks." + prop.lower())
    try:
        with Orchestrator() as orch:
            mod.run(chk, orch)
            if chk.violations:
                chk.minimise_violations(orch, mod)
    except Exception:
        import traceback
        chk.harness_error(traceback.format_exc())
    sys.exit(chk.finish())


if __name__ == "__main__":
    main()
