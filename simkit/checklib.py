"""Shared machinery of the per-property checks: evidence, violations, known findings, replay files, CLI."""
import argparse
import collections
import fnmatch
import hashlib
import json
import os
import random
import sys
import time

VERIF = os.path.dirname(os.path.dirname(os.path.abspath(__file__)))
EVIDENCE_DIR = os.path.join(VERIF, "evidence")
REPLAY_DIR = os.path.join(VERIF, "replays")
FINDINGS = os.path.join(VERIF, "known_findings.json")

REAL_COMPONENTS = [
    "isoquant.py entry point (argument handling, .params, logging, exit codes)",
    "src/gtf2db.py + gffutils (GTF -> sqlite DB conversion and its cache)",
    "src/dataset_processor.py (fan-out, locks, resume branches, multimapper resolution, merge, clean-up)",
    "src/alignment_processor.py, long_read_assigner.py, exon_corrector.py, graph_based_model_construction.py",
    "src/assignment_io.py, serialization.py, long_read_counter.py, transcript_printer.py, read_groups.py, stats.py",
    "pysam / pyfaidx / sqlite3 (unmodified; their C-level I/O is atomic in the model)",
    "real forked processes with real Python buffering, destructors and SIGKILL",
]
STUB_COMPONENTS = [
    "concurrent.futures.ProcessPoolExecutor -> simkit.seams.SimPool (fork-per-map workers, FIFO queue, pickled args/results; scheduler decides placement and interleaving)",
    "builtins.open/os.remove/os.rename/os.makedirs/glob.glob/time.sleep on tracked paths -> event-reporting wrappers (real I/O underneath, seeded buffer size)",
    "aligners (minimap2/STAR) and the FASTQ path: absent from the sandbox, not exercised",
    "visualisation, short-read (--illumina_bam) correction, CAGE: not exercised",
]


def load_findings():
    try:
        with open(FINDINGS) as f:
            return json.load(f)
    except (OSError, ValueError):
        return {"format": 1, "entries": []}


def _match(entry, prop, clause, attrs):
    if entry.get("status") != "known" or entry.get("property") != prop:
        return False
    if entry.get("clause") not in (None, "*", clause):
        return False
    for k, pat in (entry.get("match") or {}).items():
        v = attrs.get(k)
        if v is None:
            return False
        if isinstance(pat, list):
            if not any(fnmatch.fnmatchcase(str(v), str(p)) for p in pat):
                return False
        elif not fnmatch.fnmatchcase(str(v), str(pat)):
            return False
    return True


class Check:
    def __init__(self, prop, tier, seed, level="exploration", budget=None):
        self.prop = prop
        self.tier = tier
        self.seed = seed
        self.level = level
        self.t0 = time.time()
        self.budget = budget
        self.rng = random.Random("%s/%s" % (prop, seed))
        self.evaluations = 0
        self.distinct = set()
        self.samples = []
        self.faults = collections.Counter()
        self.probes = collections.Counter()
        self.violations = []       # unlisted
        self.known_hits = collections.OrderedDict()
        self.harness_errors = []
        self.findings = load_findings()
        self.extra = {}
        self.events_simulated = 0
        self.runs = 0
        self.rule = ""
        self.assumptions = []
        self.interleavings = set()
        self._vcount = 0

    # ---- time budget
    def time_left(self):
        if self.budget is None:
            return 1e9
        return self.budget - (time.time() - self.t0)

    # ---- bookkeeping
    def count_run(self, res):
        """res: summarised result of one simulated execution"""
        self.runs += 1
        self.events_simulated += res.get("events", 0) or 0
        if res.get("trace_sha"):
            self.interleavings.add(res["trace_sha"])

    def sample(self, s, cap=6):
        if len(self.samples) < cap:
            self.samples.append(s)

    def harness_error(self, what):
        self.harness_errors.append(str(what)[:2000])

    def violation(self, clause, attrs, what, replay):
        """attrs: dict used to match known findings; replay: JSON-able doc to re-execute"""
        for e in self.findings.get("entries", []):
            if _match(e, self.prop, clause, attrs):
                key = e.get("id") or e.get("what")
                if key not in self.known_hits:
                    self.known_hits[key] = {"entry": e, "count": 0, "example": what}
                self.known_hits[key]["count"] += 1
                return False
        self._vcount += 1
        path = None
        doc = None
        if len(self.violations) < 20:
            rdir = REPLAY_DIR if not os.environ.get("VERIF_NO_EVIDENCE") else os.path.join("/tmp", "verif-scratch-replays")
            os.makedirs(rdir, exist_ok=True)
            h = hashlib.sha256(json.dumps(replay, sort_keys=True, default=str).encode()).hexdigest()[:10]
            path = os.path.join(rdir, "%s-%s-%s.json" % (self.prop, self.seed, h))
            doc = {"format": 1, "property": self.prop, "clause": clause, "attrs": attrs, "what": what}
            doc.update(replay)
            with open(path, "w") as f:
                json.dump(doc, f, indent=1, default=str)
        self.violations.append({"clause": clause, "attrs": attrs, "what": what, "replay": path,
                                "doc": doc if path else None})
        return True

    def minimise_violations(self, orch, mod=None, limit=3, max_evals=40):
        """greedy minimisation (simkit/minimise.py) of the first few unlisted pipeline-level violations, one per
        (clause, attrs) group; the replay file is rewritten with the minimised document"""
        from . import minimise, replay
        done = set()
        n = 0
        for v in self.violations:
            doc = v.get("doc")
            if not doc:
                continue
            custom = getattr(mod, "minimise_doc", None)
            pipeline_like = doc.get("oracle") in ("golden_equality", "self") or \
                (str(doc.get("oracle", "")).startswith("module:") and isinstance(doc.get("run"), dict) and "args" in doc["run"]
                 and "spec" in doc["run"]["args"])
            if not pipeline_like and custom is None:
                continue
            g = (v["clause"], json.dumps(v["attrs"], sort_keys=True))
            if g in done or n >= limit or self.time_left() < 30:
                continue
            done.add(g)
            n += 1
            try:
                relocate = getattr(mod, "relocate", None)
                if not pipeline_like:
                    small, info = custom(doc, orch, max_evals=max_evals)
                else:
                    small, info = minimise.minimise(doc, orch, replay.evaluate, relocate=relocate, max_evals=max_evals)
                small = dict(small)
                small["minimisation"] = info
                if info.get("minimised"):
                    r = replay.evaluate(small, orch)
                    small.setdefault("expected", {})
                    small["expected"] = dict(small["expected"] or {}, trace_sha256=r.get("trace_sha"), sig=r.get("sig"))
                with open(v["replay"], "w") as f:
                    json.dump(small, f, indent=1, default=str)
                v["minimisation"] = info
            except Exception as e:
                v["minimisation"] = {"error": repr(e)}

    # ---- finish
    def finish(self, coverage_extra=None):
        wall = time.time() - self.t0
        cov = {
            "evaluations": int(self.evaluations),
            "distinct_nontrivial": int(len(self.distinct)),
            "rule": self.rule,
            "samples": self.samples or ["(none)"],
            "simulated_runs": self.runs,
            "runs_per_hour": round(self.runs / wall * 3600, 1) if wall > 0 else 0,
            "events_simulated": self.events_simulated,
            "simulated_time": "no simulated wall-clock exists in this system (no timers/deadlines); the time axis is "
                              "the global event sequence number: %d events" % self.events_simulated,
            "distinct_interleavings_by_trace_sha256": len(self.interleavings),
            "fault_kinds_fired": dict(self.faults),
            "reach_probes": dict(self.probes),
            "real_components": REAL_COMPONENTS,
            "stubbed_components": STUB_COMPONENTS,
            "known_findings_hit": [{"id": k, "count": v["count"]} for k, v in self.known_hits.items()],
            "harness_errors": len(self.harness_errors),
        }
        cov.update(self.extra)
        if coverage_extra:
            cov.update(coverage_extra)
        ev = {
            "property_id": self.prop, "tier": self.tier, "seed": int(self.seed), "level": self.level,
            "coverage": cov, "assumptions": self.assumptions, "wall_s": round(wall, 2),
            "violations": len(self.violations),
        }
        evdir = EVIDENCE_DIR
        if os.environ.get("VERIF_NO_EVIDENCE"):
            # evaluation of a scratch tree (sensitivity runs): keep the committed evidence of /repo intact
            evdir = os.path.join("/tmp", "verif-scratch-evidence")
        os.makedirs(evdir, exist_ok=True)
        tmp = os.path.join(evdir, "%s.json.tmp" % self.prop)
        with open(tmp, "w") as f:
            json.dump(ev, f, indent=1, default=str)
        os.replace(tmp, os.path.join(evdir, "%s.json" % self.prop))
        for k, v in self.known_hits.items():
            print("KNOWN-FINDING: property=%s %s (hit %d times; e.g. %s)" % (
                self.prop, v["entry"].get("what", k), v["count"], str(v["example"])[:300]))
        for he in self.harness_errors[:5]:
            print("HARNESS-ERROR %s" % he.replace("\n", " | ")[:600])
        groups = collections.Counter()
        for v in self.violations:
            groups[(v["clause"], json.dumps(v["attrs"], sort_keys=True)[:300])] += 1
        shown = set()
        for v in self.violations:
            print("VIOLATION property=%s replay=%s" % (self.prop, v["replay"]))
            g = (v["clause"], json.dumps(v["attrs"], sort_keys=True)[:300])
            if g not in shown or len(shown) < 3:
                print("   clause=%s %s" % (v["clause"], str(v["what"])[:1500]))
            shown.add(g)
        if len(groups) > 1 or len(self.violations) > 3:
            print("violation groups (clause, attrs) x count:")
            for g, n in groups.most_common(40):
                print("   %4d  %s %s" % (n, g[0], g[1]))
        print("%s %s: runs=%d evaluations=%d distinct=%d violations=%d known=%d harness_errors=%d wall=%.1fs" % (
            self.prop, self.tier, self.runs, self.evaluations, len(self.distinct), len(self.violations),
            len(self.known_hits), len(self.harness_errors), wall))
        if self.violations:
            return 1
        if self.harness_errors and self.runs == 0:
            return 2
        if len(self.harness_errors) > max(3, self.runs // 20):
            return 2
        return 0


def parse_cli(argv=None):
    ap = argparse.ArgumentParser()
    ap.add_argument("prop")
    ap.add_argument("--tier", default=os.environ.get("VERIF_TIER", "quick"), choices=["quick", "thorough"])
    ap.add_argument("--seed", type=int, default=int(os.environ.get("VERIF_SEED", "20260926")))
    ap.add_argument("--budget", type=float, default=None, help="seconds (thorough only)")
    ap.add_argument("--replay", default=None)
    return ap.parse_args(argv)
