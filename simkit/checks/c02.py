"""C02 - expression tables equal the documented weighting of the reported read assignments."""
import re
from . import common, sweep, countermachine
from .. import workload

STRATS = ["unique_only", "with_ambiguous", "unique_splicing_consistent", "unique_inconsistent", "all"]


def make_wl(rng, k):
    spec = workload.random_spec(rng)
    opts = common.random_opts(rng, spec)
    if k is not None:
        # systematic part: every strategy for genes and transcripts x both normalisations
        opts["transcript_quant"] = STRATS[k % 5]
        opts["gene_quant"] = STRATS[(k // 5 + k) % 5]
        opts["normalization"] = ["simple", "usable_reads"][k % 2]
    else:
        opts["transcript_quant"] = rng.choice(STRATS)
        opts["gene_quant"] = rng.choice(STRATS)
        opts["normalization"] = rng.choice(["simple", "usable_reads"])
    opts["annotated"] = True
    spec["paralogs"] = rng.choice([1, 2])
    spec["jitter"] = rng.choice([1, 3, 8])
    spec["deep_gene"] = (2 if k is not None and k % 8 == 0 else rng.choice([1, 2])) if (k is not None and k % 4 == 0) or rng.random() < 0.25 else 0
    spec["truncate"] = 1 if spec["deep_gene"] else spec.get("truncate", 1)
    if spec["deep_gene"] and k is not None:
        # the deep gene is built for the default ONT thresholds (a novel model that is constructed and then filtered out again)
        opts["data_type"] = "nanopore"
        opts.pop("model_strategy", None)
        opts.pop("extra", None)
        spec["polya"] = 1
    if k is not None and k % 5 == 2:
        # killed right after the counters of a chromosome were dumped (their .stats files are written), before that chromosome is
        # marked as processed; the resumed run processes the chromosome again
        opts["force_fault"] = {"kind": "kill", "stage": "construct", "label_rx": r"_counts\.tsv\.stats$", "nth": -1 - (k // 5) % 3,
                               "phase": "after"}
        spec["n_chr"] = max(3, spec.get("n_chr", 3))
        spec["n_exp"] = 1
    if k is not None and k % 10 == 6:
        # killed during read collection, after the first / second chromosome was collected; the resumed run reloads those
        # chromosomes from their save files: a multi-mapped read must still be weighted as one read
        opts["force_fault"] = {"kind": "kill", "stage": "collect", "label_rx": r":open:w:.*_collected$", "nth": (k // 10) % 2, "phase": "after"}
        spec["n_chr"] = max(3, spec.get("n_chr", 3))
        spec["n_exp"] = 1
        spec["long_locus"] = 1
        spec["chr_order"] = 0
    # multi-mapped reads whose kept record(s) name one gene but two isoforms (labels vs. number of features)
    spec["ambig_multi"] = rng.choice([2, 4, 6])
    return spec, opts


def attrs(probs, spec, opts, cell, res):
    p = probs[0]
    kind = re.sub(r"[0-9.]+", "N", p.split(": ", 1)[-1])[:60]
    # a run is attributed to the listed finding only if *every* problem it shows is of that kind
    kinds = set(q.split(": ", 1)[-1].split(":")[0] for q in probs)
    if len(kinds) > 1:
        kind = "mixed: " + " | ".join(sorted(kinds))[:100]
    table = re.sub(r"^[^/]*/[^.]*\.", "<prefix>.", p.split(":")[0])
    return {"table": table, "kind": kind, "tq": opts.get("transcript_quant"), "gq": opts.get("gene_quant")}


replay = countermachine.replay


def run(chk, orch):
    countermachine.run_machine(chk, orch, 50, "c02")
    sweep.run_sweep(chk, orch, "counts", make_wl, n_quick=20, n_round=40, attr_fn=attrs,
                    what="each table cell is 0 or the documented weighted sum of the reported assignments; per-read total <= 1; "
                         "__ambiguous/__no_feature/__not_aligned lines; TPM = rescaled counts")
    chk.rule = countermachine.MACHINE_RULE + chk.rule
