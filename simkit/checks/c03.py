"""C03 - output annotations are well-formed and reproduce reference transcripts verbatim."""
import re
from . import common, sweep
from .. import workload


def make_wl(rng, k):
    spec = workload.random_spec(rng)
    opts = common.random_opts(rng, spec)
    spec["novel"] = rng.choice([1, 2, 3])
    spec["novel_cov"] = rng.choice([4, 8])
    if k is not None and k % 4 == 1:
        spec["n_exp"] = 2
        opts["threads_hint"] = 1
        # killed while the transcript models of the second or a later chromosome are written, then resumed
        opts["force_fault"] = {"kind": "kill", "stage": "construct", "frac": [0.45, 0.6, 0.75, 0.9][(k // 4) % 4], "phase": "after"}
        spec["n_chr"] = max(3, spec.get("n_chr", 3))
    if k is not None and k % 4 == 2:
        spec["pre_ids"] = 1
    spec["novel_gene_overlap"] = rng.choice([1, 2])
    if k is not None and k % 4 == 0:
        # a reference isoform seen in two processing regions of one read island (k % 8 == 4: plus an unannotated isoform of that
        # gene, found in the second region only, that reaches beyond the gene's annotated end); a reference transcript with a 1-bp exon
        spec["long_locus"] = 3 if k % 8 == 4 else 2
        spec["tiny_exon"] = 1
        spec["polya"] = 1
    if k is not None:
        spec["gene_naming"] = k % 3
        spec["drop_chr_annotation"] = 1 if k % 3 == 1 else 0
        opts["annotated"] = True if k % 5 else opts.get("annotated", True)
    if k is not None and k % 4 == 2:
        # killed right after a chromosome was marked as processed (everything that belongs to it must be on disk by then)
        opts["force_fault"] = {"kind": "kill", "stage": "construct", "label_rx": r"_processed$", "nth": (k // 4) % 3, "phase": "after"}
        spec["n_chr"] = max(3, spec.get("n_chr", 3))
        spec["n_exp"] = 1
    if k is not None and k % 4 == 3:
        # an unannotated transcript that overlaps an annotated gene AND its antisense gene, annotation ids that sort after
        # 'novel_gene_...': the gene joiner has to merge a novel gene with an annotated one (default ONT settings)
        spec.update(antisense=2, novel_gene_overlap=2, gene_naming=1 + (k // 4) % 2, polya=1, novel_cov=6,
                    genes_per_chr=max(3, spec.get("genes_per_chr", 3)), drop_chr_annotation=0)
        opts.update(annotated=True, data_type="nanopore")
        opts.pop("model_strategy", None)
        opts.pop("extra", None)
    if k is not None and k % 16 == 13:
        # two experiments with the same reads in ONE process (--threads 1), not killed: what the first experiment's chromosomes
        # left in the process must not show up in the second experiment's annotations
        opts.pop("force_fault", None)
        opts["no_fault"] = True
        # (the second experiment's reads are polyA-trimmed: it builds fewer unannotated models than the first)
        spec.update(n_exp=2, exp_mode="split", exp_polya=[1, 0], novel=3, novel_cov=8, polya=1)
        opts["data_type"] = "pacbio_ccs"
        opts.pop("model_strategy", None)
        opts.pop("extra", None)
        opts["force_cell"] = {"threads": 1, "sched": {"policy": "serial", "seed": 0}}
        opts["annotated"] = True
    if k is not None and k % 8 == 7:
        # history of the output folder: an earlier run with one chromosome MORE was killed right before it merged its per-chromosome
        # files; the run under test (--force) must report its own chromosomes only
        spec["n_chr"] = min(3, max(2, spec.get("n_chr", 2)))
        opts["pre"] = {"spec": {"seed": 900 + k, "n_chr": spec["n_chr"] + 1, "genes_per_chr": 2, "reads_per_iso": 3, "novel": 1,
                                "paralogs": 0, "chr_naming": spec.get("chr_naming", 0)},
                       "opts": {"threads": 1, "annotated": True},
                       "fault": {"kind": "kill", "label_rx": r":open:w:.*_processed$", "nth": -1, "phase": "after"}}
        opts["no_fault"] = True
    opts.pop("threads_hint", None)
    return spec, opts


def attrs(probs, spec, opts, cell, res):
    p = probs[0]
    if all(re.search(r"transcript_models\.gtf: gene \S+ \(\d+-\d+\) does not contain transcript \S+\.(nic|nnic) ", q + " ") for q in probs):
        # every problem of this run: the streamed gene record of transcript_models.gtf is too short for a NOVEL transcript
        return {"kind": "gene record of transcript_models.gtf does not contain a novel transcript", "file": "<prefix>.transcript_models.gtf"}
    return {"kind": re.sub(r"[0-9]+", "N", p.split(": ", 1)[-1])[:50], "file": re.sub(r"^[^/]*/[^.]*\.", "<prefix>.", p.split(":")[0])}


def run(chk, orch):
    sweep.run_sweep(chk, orch, "gtf", make_wl, n_quick=20, n_round=40, crash_share=0.4, attr_fn=attrs,
                    what="exon order/overlap/bounds, transcript and gene records once and consistent, reference ids => reference "
                         "structure, extended = reference + novel(models)")
