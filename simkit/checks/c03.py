"""C03 - output annotations are well-formed and reproduce reference transcripts verbatim."""
import re
from . import common, sweep
from .. import workload


def make_wl(rng, k):
    spec = workload.random_spec(rng)
    opts = common.random_opts(rng, spec)
    spec["novel"] = rng.choice([1, 2, 3])
    spec["novel_cov"] = rng.choice([4, 8])
    if k is not None and k % 4 == 1:
        spec["n_exp"] = 2
        opts["threads_hint"] = 1
    if k is not None and k % 4 == 2:
        spec["pre_ids"] = 1
    spec["novel_gene_overlap"] = rng.choice([1, 2])
    if k is not None:
        spec["gene_naming"] = k % 3
        spec["drop_chr_annotation"] = 1 if k % 3 == 1 else 0
        opts["annotated"] = True if k % 5 else opts.get("annotated", True)
    opts.pop("threads_hint", None)
    return spec, opts


def attrs(probs, spec, opts, cell, res):
    p = probs[0]
    return {"kind": re.sub(r"[0-9]+", "N", p.split(": ", 1)[-1])[:50], "file": re.sub(r"^[^/]*/[^.]*\.", "<prefix>.", p.split(":")[0])}


def run(chk, orch):
    sweep.run_sweep(chk, orch, "gtf", make_wl, n_quick=20, n_round=40, crash_share=0.4, attr_fn=attrs,
                    what="exon order/overlap/bounds, transcript and gene records once and consistent, reference ids => reference "
                         "structure, extended = reference + novel(models)")
