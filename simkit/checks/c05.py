"""C05 - every aligned read is accounted for exactly once; log statistics equal the input's record counts."""
import re
from . import common, sweep
from .. import workload


def make_wl(rng, k):
    spec = workload.random_spec(rng)
    opts = common.random_opts(rng, spec)
    spec["supplementary"] = rng.choice([0, 1, 3])
    spec["lowmapq"] = rng.choice([0, 1, 3])
    spec["intergenic"] = rng.choice([0, 2, 4])
    spec["dup_records"] = rng.choice([0, 0, 1, 2])
    spec["unmapped"] = rng.choice([0, 1, 4])
    spec["long_locus"] = 1 if (k is not None and k % 2 == 0) or rng.random() < 0.4 else 0
    spec["intergenic_multi"] = rng.choice([0, 1, 2])
    if (k is not None and k % 4 == 2) or (k is None and rng.random() < 0.2):
        # several files in one experiment, unmapped records in every file (dealt round-robin by the generator)
        spec["n_bams"] = rng.choice([2, 3])
        spec["unmapped"] = rng.choice([3, 4, 5])
        spec["n_exp"] = 1
    # chrP: >= 1024 short reads inside one coverage bin; a deep island whose last coverage valley is its last bin
    spec["pile"] = 1 if (k is not None and k % 4 == 1) or (k is None and rng.random() < 0.15) else 0
    return spec, opts


def attrs(probs, spec, opts, cell, res):
    p = probs[0]
    return {"kind": re.sub(r"\br\d+\w*|\d+", "N", p)[:70]}


def run(chk, orch):
    sweep.run_sweep(chk, orch, "accounting", make_wl, n_quick=16, n_round=40, attr_fn=attrs,
                    what="reads with a mapped, non-supplementary MAPQ-60 record are reported (BED and read_assignments), no read "
                         "without admissible alignment is, no identical records, log alignment statistics = input record counts")
