"""C05 - every aligned read is accounted for exactly once; log statistics equal the input's record counts."""
import re
from . import common, sweep
from .. import workload


def make_wl(rng, k):
    spec = workload.random_spec(rng)
    opts = common.random_opts(rng, spec)
    spec["supplementary"] = rng.choice([0, 1, 3])
    spec["lowmapq"] = rng.choice([0, 1, 3])
    spec["intergenic"] = rng.choice([0, 2, 4])
    spec["dup_records"] = rng.choice([0, 0, 1, 2])
    spec["unmapped"] = rng.choice([0, 1, 4])
    spec["long_locus"] = 1 if (k is not None and k % 2 == 0) or rng.random() < 0.4 else 0
    spec["intergenic_multi"] = rng.choice([0, 1, 2])
    if (k is not None and k % 4 == 2) or (k is None and rng.random() < 0.2):
        # several files in one experiment, unmapped records in every file (dealt round-robin by the generator)
        spec["n_bams"] = rng.choice([2, 3])
        spec["unmapped"] = rng.choice([3, 4, 5])
        spec["n_exp"] = 1
    # mapping qualities on and around the documented cut-offs (inconsistent: 5, simple alignments: 1, --min_mapq)
    spec["mapq_mix"] = 1 if (k is not None and k % 2 == 1) or (k is None and rng.random() < 0.5) else 0
    if spec["mapq_mix"] and rng.random() < 0.3:
        opts["extra"] = ["--min_mapq", str(rng.choice([4, 5, 10, 20]))]
    if k is not None and k % 8 == 0:
        # killed while reads are collected, after the first chromosomes are done; resumed with --high_memory (or without it)
        spec["long_locus"] = 1
        spec["chr_order"] = 0
        opts["force_fault"] = {"kind": "kill", "stage": "collect", "label_rx": r"_collected$", "nth": -1 - (k // 8) % 2, "phase": "after",
                               "resume": {"high_memory": (k // 8) % 2 == 0}}
        opts["force_cell"] = {"high_memory": (k // 8) % 2 == 1, "threads": 1}
    if k is not None and k % 8 == 4:
        # the resolver is also what collapses the two copies of an alignment processed in two sub-regions
        spec["long_locus"] = 1
        opts["extra"] = ["--no_secondary"]
        if k % 16 == 12:
            # ... and the run is killed in the second stage, right after the first chromosome was marked as processed, and resumed:
            # the outputs of the chromosomes finished before the kill must survive the resume
            spec["chr_order"] = 0
            opts["force_fault"] = {"kind": "kill", "stage": "construct", "label_rx": r"_processed$", "nth": 0, "phase": "after"}
    if k is not None and k % 8 == 6:
        # read names that start with '#' (valid QNAME); the intergenic reads at 40-220 are the first records of their chromosome
        spec["hash_names"] = 1
        spec["intergenic"] = max(spec.get("n_chr", 3), 3)
    if k is not None and k % 8 == 7:
        # two experiments with the same reads in one invocation under --high_memory (the per-read alignment lists of the first must
        # not take part in the second)
        spec.update(n_exp=2, exp_mode="same", n_bams=1, pile=0)
        opts["force_cell"] = {"high_memory": True, "threads": 1 + (k // 8) % 2, "sched": {"policy": "serial", "seed": 0}}
        opts["no_fault"] = True
    if k is not None and k % 8 == 3:
        # chrR: two small genes 38 kb apart, joined by one read-through read whose long intron spans the coverage valley
        spec["long_locus"] = 4
    # chrP: >= 1024 short reads inside one coverage bin; a deep island whose last coverage valley is its last bin
    spec["pile"] = 1 if (k is not None and k % 4 == 1) or (k is None and rng.random() < 0.15) else 0
    if k is not None and (spec["pile"] or spec["long_locus"]) and not opts.get("no_fault"):
        # region splitting differs between the two alignment stores: pin the memory mode alternately
        opts["force_cell"] = {"high_memory": (k // 2) % 2 == 0}
    return spec, opts


def attrs(probs, spec, opts, cell, res):
    p = probs[0]
    if all(re.search(r"read_assignments\.tsv: (read #\S+ is not reported|distinct read count mismatch)", q) for q in probs):
        # every problem of this run is a read whose name starts with '#'
        return {"kind": "hash-named read missing from read_assignments.tsv"}
    if all(re.search(r"corrected_reads\.bed: identical record 2 times: chrR\t", q) for q in probs):
        # every problem of this run is the bridging read of chrR printed twice
        return {"kind": "read bridging two genes across a region split: two identical BED records"}
    return {"kind": re.sub(r"\br\d+\w*|\d+", "N", p)[:70]}


def run_machine(chk, orch):
    """layer M: region splitting and the in-memory alignment store against a brute-force overlap model"""
    quick = chk.tier == "quick"
    nm = 4 if quick else 16
    for k in range(nm):
        orch.submit(k % 2, "machines.c05:run", {"seed": chk.seed * 1000 + k, "max_examples": 150 if quick else 1500},
                    tag=("m", k, k % 2), timeout=900)
    for jid, tag, r in orch.results():
        if not r.get("ok"):
            chk.harness_error(r.get("err"))
            continue
        res = r["res"]
        if res.get("error"):
            chk.harness_error("machine: " + res["error"])
            continue
        chk.evaluations += res["examples"]
        chk.extra["region_machine_islands"] = chk.extra.get("region_machine_islands", 0) + res["examples"]
        chk.probes["machine_island_long_or_deep_enough_to_split"] += res.get("islands_long_or_deep_enough_to_split", 0)
        chk.probes["machine_island_with_1024+_alignments"] += res.get("islands_with_1024+_alignments", 0)
        for i in range(res["distinct"]):
            chk.distinct.add("M%d/%d" % (tag[1], i))
        for s_ in res.get("samples", [])[:1]:
            chk.sample({"kind": "read island (region machine): [start offset, length, multiplicity]", "case": s_}, cap=2)
        if res.get("fail"):
            f = res["fail"]
            chk.violation("machine", {"kind": f["problems"][0][0]}, f["problems"][0][1],
                          {"engine": "machine:c05", "oracle": "module:checks.c05", "kind": "M", "case": f["case"], "hashseed": tag[2]})


def replay(doc, orch):
    import json
    jid = orch.submit(doc.get("hashseed", 0), "machines.c05:replay_case", {"case": doc["case"]})
    r = orch.run_all()[jid][1]
    if not r.get("ok"):
        return False, "harness: %s" % r.get("err")
    probs = r["res"]["problems"]
    return bool(probs), "\n".join("%s: %s" % (k, t) for k, t in probs) + "\ncase: " + json.dumps(doc["case"])


def run(chk, orch):
    run_machine(chk, orch)
    sweep.run_sweep(chk, orch, "accounting", make_wl, n_quick=16, n_round=40, attr_fn=attrs,
                    what="reads with a mapped, non-supplementary MAPQ-60 record are reported (BED and read_assignments), no read "
                         "without admissible alignment is, no identical records, log alignment statistics = input record counts")
    chk.rule = ("two layers. (M) machine: seeded read islands (up to 40 record groups, lengths 40 bp - 70 kb, multiplicities up to "
                "1100, starts on and off the 256-bp bin grid) are fed to the real coverage binning, split_coverage_regions and "
                "InMemoryAlignmentStorage: every alignment must overlap at least one processing region, regions must be contiguous, "
                "and for every region the in-memory store must return exactly the overlapping alignments in stream order (what the "
                "streaming store gets from an indexed fetch); one evaluation = one island. (P) pipeline: ") + chk.rule
