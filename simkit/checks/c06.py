"""C06 - outputs do not depend on threads, hash seed, memory mode or repetition (golden-run equality)."""
import json

from . import common


def compare(chk, spec, opts, cell, gold, res, fn="scenarios:pipeline", extra_attrs=None, gold_args=None,
            run_args=None):
    """returns True if equal"""
    r = res
    if r.get("harness_error") or gold.get("harness_error"):
        chk.harness_error("harness: %s / %s" % (r.get("harness_error"), gold.get("harness_error")))
        return True
    bad = sorted(k for k in set(gold["digests"]) | set(r["digests"]) if gold["digests"].get(k) != r["digests"].get(k))
    if r["exit"] != gold["exit"]:
        bad.append("<exit %s vs %s>" % (gold["exit"], r["exit"]))
    if not bad:
        return True
    attrs = {"files": ",".join(sorted(set(common.file_class(b) for b in bad))), "dim": cell.get("note", "random"),
             "hashseed": cell["hashseed"], "threads": cell["threads"], "high_memory": cell.get("high_memory", False),
             "keep_tmp": cell.get("keep_tmp", False), "read_group": opts.get("read_group")}
    attrs.update(extra_attrs or {})
    what = "outputs differ from the reference execution (threads=1, hashseed=0, default memory): %s; cell=%s" % (
        bad[:8], {k: cell[k] for k in ("hashseed", "threads", "high_memory", "keep_tmp", "bufsize")})
    if r.get("log_tail"):
        what += "\n" + r["log_tail"][-600:]
    chk.violation("equal", attrs, what, {
        "engine": "pipeline", "oracle": "golden_equality",
        "golden": {"hashseed": 0, "fn": fn, "args": gold_args or common.job_args(spec, opts, common.GOLDEN_CELL)},
        "run": {"hashseed": cell["hashseed"], "fn": fn, "args": run_args or common.job_args(spec, opts, cell)},
        "expected": {"diff": bad[:20], "trace_sha256": r.get("trace_sha")}})
    return False


def run(chk, orch):
    quick = chk.tier == "quick"
    chk.rule = ("each evaluation = one complete simulated IsoQuant execution (real pipeline, SimPool workers) of a seeded "
                "workload under one cell (hash seed x --threads x schedule policy/seed x memory mode x keep_tmp x buffer "
                "size), compared file-by-file (sha256 after normalisation) with the reference execution of the same "
                "workload; distinct = distinct (workload, hash seed, memory mode, keep_tmp, canonical task placement of "
                "both pool maps); non-trivial = differs from the reference cell in at least one of these")
    chk.assumptions = ["SimPool is a faithful model of ProcessPoolExecutor.map with fork start method (checked by the "
                       "fidelity self-test)", "workload generator covers several chromosomes, read groups, "
                       "multi-mappers, 1-2 experiments; inputs are sampled, not enumerated"]
    rounds = 0
    while True:
        rounds += 1
        wls = common.base_workloads(chk.tier, chk.rng, n_random=(2 if quick else 24)) if rounds == 1 else \
            [(lambda s: (s, common.random_opts(chk.rng, s)))(common.workload.random_spec(chk.rng)) for _ in range(24)]
        if rounds == 1:
            # a workload without multi-mappers, run in folders that hold the intermediate files (--keep_tmp) of another data set
            # WITH multi-mappers and duplicates: nothing of the earlier run may leak into this one
            # (several genes with TWO unannotated isoforms each: the order of a gene's novel models in the extended annotation)
            hist_spec = {"seed": 14, "n_chr": 3, "genes_per_chr": 4, "paralogs": 0, "intergenic_multi": 0, "novel": 6, "novel_twin": 1,
                         "novel_cov": 6, "groups": 0}
            # (same options, so that both runs produce the same set of output files)
            hist_pre = {"spec": {"seed": 15, "n_chr": 3, "genes_per_chr": 3, "paralogs": 2, "intergenic_multi": 2, "dup_records": 2,
                                 "novel": 2, "groups": 0, "ambig_multi": 3},
                        "opts": {"keep_tmp": True, "threads": 1}}
            wls.append((hist_spec, {}))
            # a library in which tails are required (>= 70% of the assigned reads carry one) but the reads of one annotated gene and
            # of an unannotated isoform have none: what is reported for them hangs on the library-wide tail statistics, which the
            # two memory modes gather on different paths
            polya_spec = {"seed": 16, "n_chr": 3, "genes_per_chr": 6, "paralogs": 0, "intergenic_multi": 0, "groups": 0, "novel": 1,
                          "novel_cov": 6, "reads_per_iso": 8, "mono": 0, "novel_notail": 2, "polya": 1}
            wls.append((polya_spec, {}))
        jobs = {}
        for wi, (spec, opts) in enumerate(wls):
            gid = orch.submit(0, "scenarios:pipeline", common.job_args(spec, opts, common.GOLDEN_CELL), tag=("g", wi))
            if rounds == 1 and spec.get("seed") == 16 and spec.get("novel_notail"):
                g0 = common.GOLDEN_CELL
                cells = [dict(g0, high_memory=True, note="memory_mode"),
                         dict(g0, high_memory=True, threads=3, sched={"policy": "spread", "seed": 5}, note="memory_mode"),
                         dict(g0, threads=2, hashseed=3, sched={"policy": "random", "seed": 6})]
            elif rounds == 1 and spec.get("seed") == 14 and wi == len(wls) - 2:
                g0 = common.GOLDEN_CELL
                cells = [dict(g0, pre=hist_pre, note="folder_history"),
                         dict(g0, pre=hist_pre, threads=2, sched={"policy": "spread", "seed": 4}, note="folder_history"),
                         dict(g0, pre=hist_pre, high_memory=True, note="folder_history")]
            elif rounds == 1 and wi < 3:
                cells = common.structured_cells() if not quick or wi < 2 else common.structured_cells()[:8]
            else:
                cells = [common.random_cell(chk.rng) for _ in range(4 if quick else 8)]
            for ci, cell in enumerate(cells):
                orch.submit(cell["hashseed"], "scenarios:pipeline", common.job_args(spec, opts, cell), tag=("c", wi, ci))
            jobs[wi] = (spec, opts, cells)
        gold, results = {}, {}
        for jid, tag, r in orch.results():
            if not r.get("ok"):
                chk.harness_error(r.get("err"))
                continue
            if tag[0] == "g":
                gold[tag[1]] = r["res"]
            else:
                results[(tag[1], tag[2])] = r["res"]
            chk.count_run(r["res"])
        for (wi, ci), res in sorted(results.items()):
            spec, opts, cells = jobs[wi]
            if wi not in gold:
                continue
            g = gold[wi]
            if g["exit"] != 0:
                # a failing reference run is not a C06 matter (nothing to compare with); recorded, not hidden
                chk.probes["reference_execution_failed_skipped"] += 1
                if "Input GTF seems to be corrupted" in (g.get("log_tail") or ""):
                    chk.harness_error("workload generator produced an annotation IsoQuant rejects: %s" % json.dumps(spec))
                chk.extra.setdefault("reference_failures", [])
                if len(chk.extra["reference_failures"]) < 3:
                    chk.extra["reference_failures"].append({"spec": spec, "opts": opts, "log": (g.get("log_tail") or "")[-400:]})
                continue
            cell = cells[ci]
            chk.evaluations += 1
            key = (wi, rounds, cell["hashseed"], cell.get("high_memory"), cell.get("keep_tmp"), res["placement"])
            if (cell["hashseed"], cell["threads"], cell.get("high_memory"), cell.get("keep_tmp")) != (0, 1, False, False):
                chk.distinct.add(json.dumps(key))
            if res["pool_maps"]:
                chk.probes["runs_through_simpool"] += 1
                if any(len(t) >= 2 for m in json.loads(res["placement"]) for t in m[1]):
                    chk.probes["worker_executed_2+_tasks"] += 1
            if cell["hashseed"] != 0:
                chk.faults["hash_seed_change"] += 1
            if cell.get("high_memory"):
                chk.faults["memory_mode_change"] += 1
            if cell["threads"] > 1:
                chk.faults["worker_placement"] += 1
            chk.sample({"workload": spec, "opts": opts, "cell": cell, "placement": res["placement"],
                        "events": res["events"]})
            compare(chk, spec, opts, cell, g, res)
        if quick or chk.time_left() < 60:
            break
