"""C07 - resuming a killed run reproduces the outputs of an uninterrupted run (crash-point enumeration)."""
import collections
import json
import re

from . import common

STAGES = ["setup", "collect", "resolve", "construct", "merge", "cleanup"]


def stages_of(labels):
    """labels: [(seq, slot, label, occ)] -> {seq: stage}; landmarks are log-independent file events"""
    out = {}
    stage = 0
    for seq, slot, label, occ in labels:
        nxt = stage
        if stage in (0, 5) and re.search(r"aux/<prefix>\.save_<chr>$", label) and ":open:" in label:
            nxt = 1
        elif stage == 1 and "save_multimappers_" in label:
            nxt = 2
        elif stage in (1, 2) and re.search(r"<prefix>/<prefix>\.", label) and ":open:" in label:
            nxt = 3
        elif stage == 3 and ":remove:" in label:
            nxt = 4
        elif stage == 4 and ":remove:" in label and "/aux/" in label and not re.search(r"_counts\.tsv\.stats$", label):
            nxt = 5
        elif stage == 5 and label.endswith("read_group_lock") and ":open:" in label:
            nxt = 0
        stage = nxt
        out[seq] = STAGES[stage]
    return out


def first_crashable(labels):
    """index of the first event after the parameters were saved (the property's precondition)"""
    last = None
    for seq, slot, label, occ in labels:
        if label.endswith("<out>/.params"):
            last = seq
    return 0 if last is None else last + 1


def symptom(ref, res):
    if res.get("harness_error"):
        return "harness"
    if res["exit"] != 0:
        return "exit%s:%s" % (res["exit"], res.get("failure_site", "?"))
    bad = sorted(k for k in set(ref["digests"]) | set(res["digests"]) if ref["digests"].get(k) != res["digests"].get(k))
    if bad:
        # is it only the __not_aligned line of count tables?
        tm_a, tm_b = ref.get("table_meta", {}), res.get("table_meta", {})
        only_stats = set()
        for k in bad:
            a, b = tm_a.get(k), tm_b.get(k)
            if a and b and a["body"] == b["body"]:
                only_stats.update(x for x in set(a["stats"]) | set(b["stats"]) if a["stats"].get(x) != b["stats"].get(x))
            else:
                only_stats = None
                break
        if only_stats:
            return "exit0-differs:only-lines:" + ",".join(sorted(only_stats))
        return "exit0-differs:" + ",".join(sorted(set(common.file_class(b) for b in bad)))
    return None


def run(chk, orch):
    quick = chk.tier == "quick"
    chk.rule = ("each evaluation = one (crash point, phase) pair: the real pipeline is run under a seeded schedule, the whole "
                "process tree is SIGKILLed before/after file-system event k (buffers lost, no destructors), then "
                "(second fault kind 'sigint': KeyboardInterrupt is raised in the top-level process at event k instead - the stack "
                "unwinds, finally blocks/destructors/exit handlers run under the same scheduler, the run may take any exit), then "
                "`isoquant.py --resume` runs fault-free and all outputs are compared with the uninterrupted control run of "
                "the same workload/cell; quick enumerates one representative index per distinct event label x phase, "
                "thorough enumerates every index; distinct = distinct (workload, cell, stage, label, phase)")
    chk.assumptions = ["a kill loses exactly the user-space buffers; written bytes survive (no power-loss semantics)",
                       "C-level writes inside pysam/pyfaidx/sqlite are atomic events",
                       "SIGINT arrives at tracked events only and at the top-level process only (kill -INT <pid>); while that "
                       "process waits for its pool the exception surfaces after the workers have drained the queue",
                       "control run = fault-free run of the same workload under the same cell (attribution rule, DESIGN 2.6)"]
    plan = []
    wls = [
        ({"seed": 21, "n_chr": 2, "genes_per_chr": 2, "reads_per_iso": 3, "paralogs": 1, "novel": 1, "groups": 0, "long_locus": 1},
         {}, dict(common.GOLDEN_CELL, threads=1, bufsize=8192)),
        ({"seed": 22, "n_chr": 3, "genes_per_chr": 2, "reads_per_iso": 3, "paralogs": 1, "novel": 1, "groups": 2},
         {"read_group": "file"}, dict(common.GOLDEN_CELL, threads=3, sched={"policy": "random", "seed": 3}, bufsize=256)),
    ]
    wls.append(({"seed": 26, "n_chr": 2, "genes_per_chr": 2, "reads_per_iso": 2, "paralogs": 1, "novel": 0},
                {"ref_gz": True}, dict(common.GOLDEN_CELL, threads=2, sched={"policy": "placed", "seed": 2})))
    # two experiments in one invocation (per-experiment locks and statistics; each BAM has unmapped records)
    wls.append(({"seed": 27, "n_chr": 2, "genes_per_chr": 1, "reads_per_iso": 2, "paralogs": 0, "novel": 0, "n_exp": 2,
                 "exp_mode": "split", "unmapped": 3, "supplementary": 0, "lowmapq": 0, "intergenic": 0, "mono": 0},
                {}, dict(common.GOLDEN_CELL, threads=1, bufsize=8192)))
    # history of the output folder: another data set was processed there before with --keep_tmp (its locks and intermediate
    # files are still around), then the run under test starts with --force, is killed and resumed
    wls.append(({"seed": 28, "n_chr": 2, "genes_per_chr": 2, "reads_per_iso": 2, "paralogs": 0, "novel": 0, "n_exp": 2,
                 "exp_mode": "split", "supplementary": 0, "lowmapq": 0, "intergenic": 0, "mono": 0},
                # (both runs are given plain-gzip references with one file name: the unpacked copy of the first is still there)
                {"ref_gz": True,
                 "pre": {"spec": {"seed": 29, "n_chr": 2, "genes_per_chr": 2, "reads_per_iso": 3, "paralogs": 0, "novel": 0,
                                  "n_exp": 2, "exp_mode": "same", "supplementary": 0, "lowmapq": 0, "intergenic": 0, "mono": 0},
                         "opts": {"keep_tmp": True, "threads": 1, "ref_gz": True}}},
                dict(common.GOLDEN_CELL, threads=1, bufsize=8192)))
    # ... and the same with an earlier run that was itself KILLED in the second stage (one chromosome already marked as processed)
    wls.append(({"seed": 30, "n_chr": 2, "genes_per_chr": 2, "reads_per_iso": 2, "paralogs": 0, "novel": 1,
                 "supplementary": 0, "lowmapq": 0, "intergenic": 0, "mono": 0},
                {"pre": {"spec": {"seed": 31, "n_chr": 2, "genes_per_chr": 2, "reads_per_iso": 3, "paralogs": 0, "novel": 1,
                                  "supplementary": 0, "lowmapq": 0, "intergenic": 0, "mono": 0},
                         "opts": {"threads": 1},
                         "fault": {"kind": "kill", "label_rx": r"_processed$", "nth": 0, "phase": "after"}}},
                dict(common.GOLDEN_CELL, threads=1, bufsize=8192)))
    if not quick:
        wls += [
            ({"seed": 23, "n_chr": 2, "genes_per_chr": 2, "reads_per_iso": 3, "paralogs": 1, "n_exp": 2},
             {}, dict(common.GOLDEN_CELL, threads=2, sched={"policy": "pct", "seed": 4}, bufsize=64)),
            ({"seed": 24, "n_chr": 1, "genes_per_chr": 2, "reads_per_iso": 3, "paralogs": 0},
             {"keep_tmp": True}, dict(common.GOLDEN_CELL, keep_tmp=True, threads=1, bufsize=64)),
            ({"seed": 25, "n_chr": 4, "genes_per_chr": 2, "reads_per_iso": 2, "paralogs": 2, "groups": 3},
             {"read_group": "tag", "no_gzip": True}, dict(common.GOLDEN_CELL, threads=16, sched={"policy": "rr", "seed": 1})),
        ]
    rounds = 0
    while True:
        rounds += 1
        if rounds > 1:
            spec = common.workload.random_spec(chk.rng, "tiny" if chk.rng.random() < 0.5 else "small")
            opts = common.random_opts(chk.rng, spec)
            cell = common.random_cell(chk.rng, allow_mem=True)
            wls = [(spec, opts, cell)]
        # control runs
        ctl = {}
        pres = {}
        for wi, (spec, opts, cell) in enumerate(wls):
            opts = dict(opts)
            pre = opts.pop("pre", None)
            wls[wi] = (spec, opts, cell)
            pres[wi] = pre
            # the control run (and with it the event labels) goes through the same folder history
            orch.submit(cell["hashseed"], "scenarios:pipeline",
                        common.job_args(spec, opts, cell, want=["labels"], **({"pre": pre} if pre else {})), tag=("ctl", wi))
        for jid, tag, r in orch.results():
            if not r.get("ok"):
                chk.harness_error(r.get("err"))
                continue
            ctl[tag[1]] = r["res"]
            chk.count_run(r["res"])
        # crash points
        points = {}
        for wi, (spec, opts, cell) in enumerate(wls):
            c = ctl.get(wi)
            if c is None or c["exit"] != 0 or c.get("harness_error"):
                if c is not None:
                    chk.probes["control_run_failed_skipped"] += 1
                continue
            labels = [tuple(x) for x in c["labels"]]
            st = stages_of(labels)
            k0 = first_crashable(labels)
            cand = [(seq, slot, label, occ) for seq, slot, label, occ in labels if seq >= k0]
            if quick or (rounds > 1 and len(cand) > 400):
                # one representative index per distinct (stage, label): seeded choice among its occurrences
                by = collections.OrderedDict()
                for x in cand:
                    by.setdefault((st[x[0]], x[2]), []).append(x)
                # ... plus the LAST occurrence in the stages that work through the chromosomes one by one (a kill before the first
                # chromosome is finished and a kill after most of them are finished leave different states behind)
                reps = []
                for (stg, _), v in by.items():
                    first = v[chk.rng.randrange(len(v))] if len(v) > 2 else v[0]
                    reps.append(first)
                    if len(v) > 1 and stg in ("collect", "construct") and v[-1] != first:
                        reps.append(v[-1])
                cand = reps
            for seq, slot, label, occ in cand:
                for phase in ("before", "after", "after+threads", "sigint"):
                    a = common.job_args(spec, opts, cell)
                    if pres.get(wi):
                        a["pre"] = pres[wi]
                    rs = {}
                    if phase == "sigint" and not (wi in (0, 1) or not quick):
                        # the one kill signal that unwinds the stack (Ctrl+C, kill -INT, scancel --signal=INT): KeyboardInterrupt
                        # is raised in the top-level process at this event (when the event belongs to a pool worker: after the
                        # pool has drained its queue, as the executor does); finally blocks, destructors and exit handlers run
                        continue
                    if phase == "after+threads":
                        # --resume with another --threads value (documented as allowed): quick tier, late stages of the
                        # first (single-threaded) workload only
                        if not (quick and wi == 0 and st[seq] in ("construct", "merge", "cleanup")):
                            continue
                        rs = {"threads": 2, "sched": {"policy": "spread", "seed": seq}}
                    a["fault"] = {"kind": "kill", "index": seq, "phase": "after" if phase == "after+threads" else phase}
                    if phase == "sigint":
                        a["fault"] = {"kind": "interrupt", "index": seq, "phase": "before"}
                    if not quick and chk.rng.random() < 0.3:
                        rs["threads"] = chk.rng.choice([1, 2, 4])
                        rs["sched"] = {"policy": chk.rng.choice(common.POLICIES), "seed": chk.rng.randrange(1000)}
                    if not quick and chk.rng.random() < 0.15:
                        # a second kill, this time of the resumed run (flaky cluster), then a final fault-free resume
                        rs["fault2"] = {"kind": "kill", "index": chk.rng.randrange(0, 160), "phase": chk.rng.choice(["before", "after"])}
                    if quick and wi == 0 and phase != "after+threads" and st[seq] in ("collect", "merge") and (seq % 7) < 2:
                        # the resumed run is killed as well, at one of its first events (it saves its parameters again), then
                        # resumed once more
                        rs["fault2"] = {"kind": "kill", "index": seq % 7 + (0 if phase == "before" else 1), "phase": phase}
                    if not quick and chk.rng.random() < 0.1:
                        # options --resume accepts: the memory mode may change between the killed and the resumed run
                        rs["high_memory"] = not cell.get("high_memory", False)
                    a["resume"] = rs
                    orch.submit(cell["hashseed"], "scenarios:crash_resume", a, tag=("x", wi, seq, phase))
                    points[(wi, seq, phase)] = (label, st[seq], a)
                if (quick and wi == 1 or (not quick and chk.rng.random() < 0.1)) and st[seq] in ("construct", "merge"):
                    # the killed run and the resumed run are different processes: by default they do not share a string hash
                    # seed.  First half under this cell's seed, second half by the fork server of another seed.
                    a = common.job_args(spec, opts, cell)
                    if pres.get(wi):
                        a["pre"] = pres[wi]
                    a["fault"] = {"kind": "kill", "index": seq, "phase": "after"}
                    a["resume"] = {}
                    a["phase"] = "crash"
                    orch.submit(cell["hashseed"], "scenarios:crash_resume", a, tag=("x1", wi, seq, "after+hashseed"))
                    points[(wi, seq, "after+hashseed")] = (label, st[seq], a)
                    if label.endswith("_processed"):
                        # right after a chromosome was marked as processed: part of the chromosomes is done by the killed process,
                        # the rest by the resuming one - tried under a second foreign hash seed as well (two names may iterate in
                        # the same order under two particular seeds)
                        a_ = dict(a)
                        orch.submit(cell["hashseed"], "scenarios:crash_resume", a_, tag=("x1", wi, seq, "after+hashseed2"))
                        points[(wi, seq, "after+hashseed2")] = (label, st[seq], a_)
        collected = list(orch.results())
        second = []
        for jid, tag, r in collected:
            if tag[0] != "x1":
                continue
            _, wi, seq, phase = tag
            label, stage, a = points[(wi, seq, phase)]
            if not r.get("ok") or not (r["res"].get("rundir")):
                if r.get("ok") and r["res"].get("no_crash"):
                    chk.harness_error("fault index %d not reached (first half) %s" % (seq, label))
                elif not r.get("ok"):
                    chk.harness_error("%s %s %s: %s" % (stage, label, phase, r.get("err")))
                continue
            other = (wls[wi][2]["hashseed"] + (5 if phase == "after+hashseed" else 1)) % 8
            a2 = dict(a, phase="resume", rundir=r["res"]["rundir"])
            points[(wi, seq, phase)] = (label, stage, dict(a2, resume_hashseed=other))
            orch.submit(other, "scenarios:crash_resume", a2, tag=("x", wi, seq, phase))
            second.append(1)
        if second:
            collected = [c for c in collected if c[1][0] != "x1"] + list(orch.results())
        else:
            collected = [c for c in collected if c[1][0] != "x1"]
        for jid, tag, r in collected:
            _, wi, seq, phase = tag
            label, stage, a = points[(wi, seq, phase)]
            spec, opts, cell = wls[wi]
            if not r.get("ok"):
                chk.harness_error("%s %s %s: %s" % (stage, label, phase, r.get("err")))
                continue
            res = r["res"]
            chk.count_run(res)
            if res.get("no_crash"):
                chk.harness_error("fault index %d not reached (nondeterministic prefix?) %s" % (seq, label))
                continue
            if res["crash"].get("label") != label:
                chk.harness_error("crash landed on %r, expected %r" % (res["crash"].get("label"), label))
                continue
            chk.evaluations += 1
            chk.faults[("kill-tree/" + phase) if phase != "sigint" else "sigint(KeyboardInterrupt raised at the event, stack unwinds)"] += 1
            if phase == "sigint" and ":worker:" in ":" + label:
                chk.probes["sigint_while_waiting_for_the_pool"] += 1
            if phase.startswith("after+hashseed"):
                chk.faults["resume_under_another_hash_seed"] += 1
            chk.distinct.add(json.dumps([wi, rounds, stage, label, phase]))
            chk.probes["crash_in_stage_" + stage] += 1
            if "_collected" in label and phase == "after":
                chk.probes["crash_right_after_collected_lock"] += 1
            if ":write:" in label:
                chk.probes["crash_at_buffer_spill_or_close_flush"] += 1
            if a["resume"].get("threads") is not None:
                chk.faults["resume_with_other_threads"] += 1
            if (res.get("crash2") or {}).get("crashed"):
                chk.faults["second_kill_during_resume"] += 1
            if a["resume"].get("high_memory"):
                chk.faults["resume_with_other_memory_mode"] += 1
            sym = symptom(ctl[wi], res)
            chk.sample({"workload": spec, "cell": cell, "crash": {"index": seq, "phase": phase, "stage": stage,
                                                                   "label": label}, "resumed_exit": res["exit"]})
            if sym is None:
                continue
            clause = "R2" if sym.startswith("exit0") else "R1"
            attrs = {"stage": stage, "label": label, "phase": phase, "symptom": sym,
                     "threads": cell["threads"], "keep_tmp": bool(opts.get("keep_tmp"))}
            what = "killed %s event #%d [%s] %s; resumed run: %s" % (phase, seq, stage, label, sym)
            if res.get("log_tail"):
                what += "\n" + res["log_tail"][-500:]
            chk.violation(clause, attrs, what, {
                "engine": "pipeline", "oracle": "golden_equality",
                "golden": {"hashseed": cell["hashseed"], "fn": "scenarios:pipeline",
                           "args": common.job_args(spec, opts, cell, **({"pre": pres[wi]} if pres.get(wi) else {}))},
                "run": {"hashseed": cell["hashseed"], "fn": "scenarios:crash_resume", "args": a},
                "expected": {"symptom": sym, "trace_sha256": res.get("trace_sha")}})
        if rounds == 1:
            restart_mode(chk, orch, quick)
        chk.extra["crash_points_enumerated_exhaustively_per_workload"] = not quick
        if quick or chk.time_left() < 120:
            break


def restart_mode(chk, orch, quick):
    """kill + --resume of a run that was started from saved read assignments (--read_assignments), with a history: an earlier
    restart from the same saved assignments (other options) into the same folder was killed in the middle of its work.  Control =
    the uninterrupted restart in a fresh folder."""
    spec = {"seed": 41, "n_chr": 3, "genes_per_chr": 2, "reads_per_iso": 3, "paralogs": 1, "novel": 1}
    base = {"spec": spec, "opts": {"threads": 1, "annotated": True}, "sched": {"policy": "serial", "seed": 0}}
    orch.submit(0, "scenarios:reuse", dict(base), tag=("rctl",))
    jobs = {}
    earlier = [({"no_model_construction": True}, {"kind": "kill", "label_rx": r":open:a:.*_<chr>\.gene_counts\.tsv$", "nth": 1, "phase": "after"}),
               ({"transcript_quant": "all", "gene_quant": "all"},
                {"kind": "kill", "label_rx": r":open:w:.*_<chr>\.transcript_models\.gtf$", "nth": -1, "phase": "after"}),
               (None, None)]
    fracs = [0.02, 0.35, 0.7] if quick else [0.02, 0.1, 0.2, 0.35, 0.5, 0.6, 0.7, 0.8, 0.9, 0.97]
    for ei, (eo, ef) in enumerate(earlier):
        for fi, fr in enumerate(fracs):
            for phase in ("before", "after"):
                if quick and phase == "before" and fi != 1:
                    continue
                hist = {"fault": {"kind": "kill", "frac": fr, "phase": phase}}
                if eo is not None:
                    hist.update(earlier_opts=eo, earlier_fault=ef)
                else:
                    hist["skip_earlier"] = True
                a = dict(base, restart_history=hist)
                orch.submit(0, "scenarios:reuse", a, tag=("r", ei, fi, phase))
                jobs[("r", ei, fi, phase)] = a
                if eo is None and phase == "after":
                    # no earlier restart; instead ANOTHER restart from the same saved assignments runs in its own folder while
                    # the run under test lies killed, and is killed there late in its model construction (ei = 3) or completes (4)
                    for bi, bfault in ((3, {"kind": "kill", "label_rx": r":open:w:.*_<chr>\.transcript_models\.gtf$", "nth": -1,
                                            "phase": "after"}), (4, None)):
                        if quick and bi == 4 and fi != 1:
                            continue
                        h2 = dict(hist, between={"fault": bfault})
                        a2 = dict(base, restart_history=h2)
                        orch.submit(0, "scenarios:reuse", a2, tag=("r", bi, fi, phase))
                        jobs[("r", bi, fi, phase)] = a2
    ctl = None
    got = {}
    for jid, tag, r in orch.results():
        if not r.get("ok"):
            chk.harness_error("restart mode: %s" % r.get("err"))
            continue
        chk.runs += 3
        chk.events_simulated += r["res"].get("events", 0)
        if tag[0] == "rctl":
            ctl = r["res"]
        else:
            got[tag] = r["res"]
    if ctl is None or ctl["first"]["exit"] != 0 or (ctl.get("second") or {}).get("exit") != 0:
        chk.probes["restart_mode_control_failed_skipped"] += 1
        return
    want = ctl["second"]["digests"]
    for tag, res in sorted(got.items()):
        a = jobs[tag]
        k = res.get("killed") or {}
        if not k.get("crashed") or res["first"]["exit"] != 0:
            chk.probes["restart_mode_kill_not_reached"] += 1
            continue
        chk.evaluations += 1
        chk.faults["kill-tree/%s (run started from saved assignments)" % tag[3]] += 1
        if (res.get("earlier") or {}).get("crashed"):
            chk.faults["earlier_restart_from_the_same_saved_assignments_killed"] += 1
        chk.distinct.add(json.dumps(["restart", tag[1], k.get("label"), tag[3]]))
        s2 = res["second"]
        sym = None
        if s2["exit"] != 0:
            sym = "exit%s:%s" % (s2["exit"], s2.get("failure_site", "?"))
        else:
            bad = sorted(x for x in set(want) | set(s2["digests"]) if want.get(x) != s2["digests"].get(x))
            if bad:
                sym = "exit0-differs:" + ",".join(bad)[:160]
        if sym is None:
            continue
        chk.violation("R2" if sym.startswith("exit0") else "R1",
                      {"mode": "read_assignments", "earlier_restart": ["killed, without models", "killed, other counting", "none", "none; another restart from the same saves killed in its own folder meanwhile", "none; another restart from the same saves completed in its own folder meanwhile"][tag[1]],
                       "label": k.get("label"), "phase": tag[3], "symptom": sym},
                      "run started from saved assignments, killed %s [%s] and resumed (earlier restart from the same saves: %s): %s\n%s" % (
                          tag[3], k.get("label"), ["killed, run without model construction", "killed, other counting options", "none", "none - but another restart from the same saves was killed in its own folder meanwhile", "none - but another restart from the same saves completed in its own folder meanwhile"][tag[1]],
                          sym, (s2.get("log_tail") or "")[-500:]),
                      {"engine": "pipeline", "oracle": "module:checks.c07", "kind": "restart", "control": dict(a, restart_history=None),
                       "args": a, "expected": {"symptom": sym}})


def replay(doc, orch):
    i1 = orch.submit(0, "scenarios:reuse", {k: v for k, v in doc["control"].items() if k != "restart_history"})
    i2 = orch.submit(0, "scenarios:reuse", doc["args"])
    out = orch.run_all()
    c, r = out[i1][1]["res"], out[i2][1]["res"]
    s2 = r["second"]
    if s2["exit"] != 0:
        return True, "resumed run: exit %s %s\n%s" % (s2["exit"], s2.get("failure_site"), (s2.get("log_tail") or "")[-600:])
    want = c["second"]["digests"]
    bad = sorted(x for x in set(want) | set(s2["digests"]) if want.get(x) != s2["digests"].get(x))
    return bool(bad), "differs from the uninterrupted restart: %s" % bad


def relocate(doc, orch):
    """after the workload of a replay document changed, find the crash index again by (stage, label)"""
    g = doc["golden"]
    jid = orch.submit(g["hashseed"], g["fn"], dict(g["args"], want=["labels"]))
    r = orch.run_all()[jid][1]
    if not r.get("ok") or r["res"]["exit"] != 0:
        return None
    labels = [tuple(x) for x in r["res"]["labels"]]
    st = stages_of(labels)
    want_label, want_stage = doc["attrs"].get("label"), doc["attrs"].get("stage")
    k0 = first_crashable(labels)
    hits = [seq for seq, slot, label, occ in labels if seq >= k0 and label == want_label and st[seq] == want_stage]
    if not hits:
        return None
    # the failing point may be any occurrence of the label: last, first, middle are tried in that order
    cands = []
    for seq in dict.fromkeys([hits[-1], hits[0], hits[len(hits) // 2]]):
        d = dict(doc)
        d["run"] = dict(doc["run"], args=dict(doc["run"]["args"], fault=dict(doc["run"]["args"]["fault"], index=seq)))
        cands.append(d)
    return cands
