"""C08 - multi-mapped reads resolve to one best locus, order-independently, counted once."""
import json
import re

from . import common
from .. import workload


def tolerated_kinds(chk):
    kinds = []
    for e in chk.findings.get("entries", []):
        if e.get("status") == "known" and e.get("property") == "C08" and e.get("clause") == "machine":
            k = (e.get("match") or {}).get("kind")
            kinds += k if isinstance(k, list) else [k]
    return [k for k in kinds if k]


def run(chk, orch):
    quick = chk.tier == "quick"
    chk.rule = ("two layers. (M) machine: Hypothesis generates the multiset of alignments of one read (2-6 records: flags, "
                "chromosomes, regions, assignment types, isoform/gene lists, penalties, exact duplicates); the real "
                "MultimapResolver.resolve is applied to EVERY permutation of the records (<= 720) and compared with a reference "
                "model no stricter than the statement (class order, exact class for the two consistent classes, non-empty subset "
                "otherwise, suspended elsewhere, tie => ambiguous, duplicates once), the retained set must be permutation-"
                "invariant, and the stream round trip must give the same verdicts; one evaluation = one multiset. (P) pipeline: "
                "workloads with paralogous genes and secondary alignments presented in different orders (chromosome length "
                "ranking, BAM file order, tie order inside a BAM) x memory mode x threads x schedules; all outputs must be equal "
                "as multisets of lines across orders (GTF lines without their exon_id attribute: which number a novel exon gets "
                "follows the printing order of the models and is not part of 'the set of retained alignments'), and the counts "
                "oracle bounds each read's total contribution by 1")
    chk.assumptions = ["machine-level records are built like BasicReadAssignment.deserialize builds them",
                       "at most one primary alignment per read (as in a BAM file)"]
    tol = tolerated_kinds(chk)
    rounds = 0
    while True:
        rounds += 1
        # ---- M
        nm = 8 if quick else 32
        per = 150 if quick else 400
        for k in range(nm):
            hs = k % 4
            orch.submit(hs, "machines.c08:run", {"seed": chk.seed * 1000 + rounds * 100 + k, "max_examples": per,
                                                  "tolerated": tol}, tag=("m", k, hs), timeout=600)
        # ---- P
        np_ = 3 if quick else 10
        variants = {}
        for k in range(np_):
            spec = workload.random_spec(chk.rng)
            spec.update(paralogs=chk.rng.choice([1, 2, 2]), n_chr=chk.rng.choice([2, 3, 4]), secondary_seq=1, truncate=1,
                        intergenic_multi=chk.rng.choice([0, 1, 2]),
                        dup_records=chk.rng.choice([0, 1]), n_exp=1, groups=0, equal_len=0, paralog_iso=1,
                        genes_per_chr=max(3, spec.get("genes_per_chr", 3)))
            opts = {"data_type": chk.rng.choice(["nanopore", "pacbio_ccs"]), "annotated": True,
                    "transcript_quant": chk.rng.choice(["unique_only", "with_ambiguous", "all"]),
                    "gene_quant": chk.rng.choice(["unique_only", "with_ambiguous", "all"])}
            # the number of files (replicates) is part of the input: it is fixed per workload, only the ORDER of the files
            # varies (IsoQuant treats several files of one experiment as technical replicates when building models)
            spec["n_bams"] = chk.rng.choice([1, 1, 2, 3])
            if k == 1:
                # pinned for the kill-during-collection variant: paralog pairs spread over >= 4 chromosomes, so that after the first
                # chromosome(s) are collected some reads have one alignment on a finished and one on an unfinished chromosome
                spec.update(paralogs=2, n_chr=4, genes_per_chr=4, intergenic_multi=2)
            if k == 0:
                # two experiments with the same read ids in one invocation: the alignments of one experiment must not take part
                # in the resolution of the other (variant 2 runs them in one process with --high_memory)
                spec.update(n_exp=2, exp_mode="same", n_bams=1)
            for v in range(4 if quick else 6):
                s2 = dict(spec)
                o = dict(opts)
                if v > 0:
                    s2["chr_order"] = chk.rng.choice([1, 2, 3])
                    s2["tie_perm"] = chk.rng.randrange(1, 50)
                    if spec["n_bams"] > 1:
                        o["bam_order"] = chk.rng.randrange(1, 9)
                cell = common.random_cell(chk.rng) if v > 0 else dict(common.GOLDEN_CELL)
                cell["hashseed"] = 0
                if k == 0 and v == 2:
                    cell.update(high_memory=True, threads=1, sched={"policy": "serial", "seed": 0})
                a = common.job_args(s2, o, cell, oracles=["counts", "ties"])
                if v == (4 if quick else 6) - 1:
                    # history of the output folder: another data set with multi-mappers was processed there with --keep_tmp
                    # (its resolver verdict files are still around); the verdicts of THIS run must not depend on it
                    a["pre"] = {"spec": dict(spec, seed=spec["seed"] + 1), "opts": dict(o, keep_tmp=True, threads=1, high_memory=False)}
                    chk.faults["output_folder_with_multimapper_files_of_another_run"] += 1
                fnp = "scenarios:pipeline"
                if v == 1:
                    # killed while reads are collected, after the first chromosome(s) are finished, then resumed: the resolver
                    # must still see every alignment of a read, also those collected before the kill
                    fnp = "scenarios:crash_resume"
                    a["fault"] = {"kind": "kill", "stage": "collect", "label_rx": r"_collected$", "nth": k % 2, "phase": "after"}
                    a["resume"] = {"high_memory": bool(cell.get("high_memory"))}
                    chk.faults["kill_during_collection+resume"] += 1
                orch.submit(0, fnp, a, tag=("p", k, v))
                variants[(k, v)] = (s2, o, cell, a)
        res = {}
        for jid, tag, r in orch.results():
            if not r.get("ok"):
                chk.harness_error(r.get("err"))
                continue
            res[tag] = r["res"]
        for tag, r in sorted(res.items()):
            if tag[0] != "m":
                continue
            if r.get("error"):
                chk.harness_error("machine: " + r["error"])
                continue
            chk.evaluations += r["examples"]
            chk.extra["machine_examples"] = chk.extra.get("machine_examples", 0) + r["examples"]
            for i in range(r["distinct"]):
                chk.distinct.add("M%d/%d/%d/%d" % (rounds, tag[1], tag[2], i))
            for c, n in (r.get("winning_class_histogram") or {}).items():
                chk.probes["machine_winning_class_%s" % c] += n
            chk.faults["record_order_permutation(all <=720 per multiset)"] += r["examples"]
            for s in r.get("samples", [])[:1]:
                chk.sample({"kind": "multiset of alignments of one read", "records": s}, cap=3)
            for kind, kv in (r.get("known") or {}).items():
                chk.violation("machine", {"kind": kind}, kv["example"]["text"],
                              {"engine": "machine:c08", "oracle": "module:checks.c08", "records": kv["example"]["records"],
                               "hashseed": tag[2]})
            if r.get("fail"):
                f = r["fail"]
                chk.violation("machine", {"kind": f["problems"][0][0]}, f["problems"][0][1],
                              {"engine": "machine:c08", "oracle": "module:checks.c08", "records": f["records"],
                               "hashseed": tag[2], "expected": {"problems": f["problems"]}})
        for (k, v), (s2, o, cell, a) in sorted(variants.items()):
            r = res.get(("p", k, v))
            g = res.get(("p", k, 0))
            if r is None or g is None:
                continue
            chk.count_run(r)
            chk.evaluations += 1
            chk.distinct.add("P" + json.dumps([rounds, k, v, s2.get("chr_order"), s2.get("tie_perm"), o.get("bam_order"),
                                               cell.get("high_memory"), r["placement"]]))
            if v > 0:
                chk.faults["chromosome/file/record order change"] += 1
            if cell.get("high_memory"):
                chk.faults["memory_mode_change"] += 1
            probs = (r.get("oracles") or {}).get("counts") or []
            if isinstance(probs, dict):
                chk.harness_error("oracle crashed: %s" % probs.get("error"))
                probs = []
            tp = (r.get("oracles") or {}).get("ties") or []
            if isinstance(tp, dict):
                chk.harness_error("oracle crashed: %s" % tp.get("error"))
                tp = []
            if tp:
                chk.violation("ties", {"kind": re.sub(r"\br\d+\w*|\d+|G\d+(\.t\d+)?", "N", tp[0].split(": ", 1)[-1])[:80]}, " || ".join(tp[:3]),
                              {"engine": "pipeline", "oracle": "self", "run": {"hashseed": 0, "fn": "scenarios:crash_resume" if a.get("fault") else "scenarios:pipeline", "args": a}})
            per_read = [p for p in probs if "contributes" in p]
            if per_read:
                kinds = set(p.split(": ", 1)[-1].split(":")[0] for p in per_read)
                chk.violation("weight", {"kind": " | ".join(sorted(kinds))[:120]}, " || ".join(per_read[:3]),
                              {"engine": "pipeline", "oracle": "self", "run": {"hashseed": 0, "fn": "scenarios:crash_resume" if a.get("fault") else "scenarios:pipeline", "args": a}})
            if v == 0 or g["exit"] != 0:
                continue
            bad = []
            if r["exit"] != 0:
                bad = ["<exit %s %s>" % (r["exit"], r.get("failure_site"))]
            else:
                for name, dg in g["sorted_digests_no_exon_id"].items():
                    if r["sorted_digests_no_exon_id"].get(name) != dg:
                        bad.append(name)
            if bad:
                gs, go, gc, ga = variants[(k, 0)]
                chk.violation("order", {"files": ",".join(sorted(set(common.file_class(b) for b in bad)))[:200],
                                        "high_memory": bool(cell.get("high_memory"))},
                              "same alignments presented in another order (chr_order=%s tie_perm=%s n_bams=%s bam_order=%s, %s) "
                              "give different records: %s" % (s2.get("chr_order"), s2.get("tie_perm"), s2.get("n_bams"),
                                                              o.get("bam_order"), "high_memory" if cell.get("high_memory") else "default", bad[:6]),
                              {"engine": "pipeline", "oracle": "module:checks.c08", "kind": "P",
                               "golden": {"hashseed": 0, "fn": "scenarios:pipeline", "args": ga},
                               "run": {"hashseed": 0, "fn": "scenarios:crash_resume" if a.get("fault") else "scenarios:pipeline", "args": a}})
        if quick or chk.time_left() < 90:
            break


def replay(doc, orch):
    if doc.get("kind") == "P":
        i1 = orch.submit(0, doc["golden"]["fn"], doc["golden"]["args"])
        i2 = orch.submit(0, doc["run"]["fn"], doc["run"]["args"])
        out = orch.run_all()
        g, r = out[i1][1]["res"], out[i2][1]["res"]
        bad = [n for n, d in g["sorted_digests_no_exon_id"].items() if "_grouped_" not in n and r["sorted_digests_no_exon_id"].get(n) != d]
        if r["exit"] != 0:
            bad.append("exit %s" % r["exit"])
        return bool(bad), "differs as multisets: %s" % bad
    jid = orch.submit(doc.get("hashseed", 0), "machines.c08:replay_case", {"records": doc["records"]})
    out = orch.run_all()
    r = out[jid][1]
    if not r.get("ok"):
        return False, "harness: %s" % r.get("err")
    probs = r["res"]["problems"]
    return bool(probs), "\n".join("%s: %s" % (k, t) for k, t in probs) + "\nrecords:\n" + json.dumps(doc["records"], indent=1)
