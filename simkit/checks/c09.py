"""C09 - grouped tables partition the ungrouped ones; matrix and linear agree; ungroupable reads go to NA."""
import re
from . import common, sweep, countermachine
from .. import workload

MODES = ["tag", "read_id", "file", "file_name"]
FORMATS = ["both", "matrix", "linear", None]


def make_wl(rng, k):
    spec = workload.random_spec(rng)
    opts = common.random_opts(rng, spec)
    i = k if k is not None else rng.randrange(1000)
    mode = MODES[i % 4]
    spec["groups"] = rng.choice([2, 3, 5, 12])
    spec["group_missing"] = rng.choice([0, 3, 5])
    spec["group_naming"] = (i // 2) % 4
    spec["n_exp"] = 1
    opts["read_group"] = mode
    opts["counts_format"] = FORMATS[(i // 4) % 4]
    if mode == "file_name":
        spec["n_bams"] = rng.choice([2, 3])
        # contiguous chunks: an earlier-listed file has no alignments on some chromosome where a later one has
        spec["bam_split"] = ["chunks", "random", "chunks", "tiny"][(i // 4) % 4]
        spec["n_chr"] = max(3, spec.get("n_chr", 3))
        opts["bam_order"] = rng.randrange(1, 20)     # the files are listed in a seeded order, not in chunk order
        # how the files and their labels are given: --bam [--labels], a list file ('<path>:<label>'), YAML ('labels')
        opts["input_mode"] = ["auto", "bam_list", "yaml", "auto", "yaml", "bam_list"][(i // 4) % 6]
        opts["labels"] = [None, "custom", "custom", "custom", "omit", None][(i // 4) % 6]
        if k is not None:
            # the streaming store re-fetches every region from the files that cover it: default memory mode for these workloads
            opts["force_cell"] = {"high_memory": False}
        if spec["bam_split"] == "chunks":
            # no cross-chromosome records: the first file really has nothing on the last chromosome
            spec.update(paralogs=0, intergenic_multi=0, decoy_chr=0, supplementary=0)
    if mode == "file":
        # the documented table layouts: file:<path>[:<read col>:<group col>[:<delim>]], plain or gzipped
        opts["group_table_fmt"] = [None, "2:1:tab:gz:short", "2:0:comma", "1:3:semi:gz", "3:1:space", "1:0:tab"][(i // 4) % 6]
    if mode == "file" and k is not None and k % 8 == 6:
        # reads whose primary alignment is ambiguous between isoforms while the secondary alignment on the paralog (another
        # chromosome) is the one that is counted: the per-chromosome tables must know the read wherever it has a record
        spec.update(paralog_iso=1, paralogs=2, secondary_seq=1, genes_per_chr=max(3, spec.get("genes_per_chr", 3)))
        spec["n_chr"] = max(3, spec.get("n_chr", 3))
    if mode == "tag":
        spec["group_tag"] = ["RG", "XG", "RG", "HP"][(i // 4) % 4]
        if (i // 4) % 4 == 2:
            opts["read_group"] = "tag_default"      # '--read_group tag' = RG
        if spec["group_tag"] == "HP":
            spec["group_naming"] = 4                # integer-typed tag values (HP:i:1)
    if k is not None and k % 8 in (0, 5):
        # killed while the second stage works through the chromosomes, resumed by a process with another string hash seed
        opts["force_fault"] = {"kind": "kill", "stage": "construct", "frac": [0.5, 0.7, 0.85][(k // 8) % 3], "phase": "after",
                               "resume_hashseed": 3 + k % 4}
        spec["n_chr"] = max(3, spec.get("n_chr", 3))
        spec["groups"] = max(3, spec["groups"])
    if k is not None and mode == "file" and k % 8 == 2:
        # killed while the read group table is being split into per-chromosome tables, then resumed
        opts["force_fault"] = {"kind": "kill", "stage": "setup", "label_rx": r":open:w:.*read_group_<chr>$", "nth": -1, "phase": "after"}
    if k is not None and mode == "tag" and k % 16 == 4:
        # free-text tag values with a blank at one end; killed right after the last (k = 4: first) chromosome was collected, resumed:
        # the per-chromosome group lists written by the killed run are read back by the resumed one
        spec["group_naming"] = 5
        spec["group_tag"] = "XG"
        opts["read_group"] = "tag"
        spec["n_chr"] = max(3, spec.get("n_chr", 3))
        opts["force_fault"] = {"kind": "kill", "label_rx": r":open:w:.*_collected$", "nth": -1 if k % 32 == 4 else 0, "phase": "after"}
    if k is not None and k % 16 == 9:
        # two experiments in one process (--threads 1), reads without a group in both: what the first experiment's grouper did
        # must not change how the second one reports its ungrouped reads
        spec["n_exp"] = 2
        spec["exp_mode"] = "same"
        spec["group_missing"] = 3
        opts["force_cell"] = {"threads": 1, "sched": {"policy": "serial", "seed": 0}}
        opts["no_fault"] = True
    opts["annotated"] = True
    strats = ["unique_only", "with_ambiguous", "unique_splicing_consistent", "unique_inconsistent", "all"]
    opts["transcript_quant"] = strats[i % 5]
    opts["gene_quant"] = strats[(i // 5 + 2 * i + 1) % 5]
    spec["truncate"] = 1
    spec["novel"] = rng.choice([1, 2, 3])
    return spec, opts


def attrs(probs, spec, opts, cell, res):
    p = probs[0]
    return {"kind": re.sub(r"\d+(\.\d+)?", "N", p)[:60], "mode": opts.get("read_group"), "format": opts.get("counts_format")}


attrs.judge_failures = True


replay = countermachine.replay


def run(chk, orch):
    countermachine.run_machine(chk, orch, 0, "c09")
    sweep.run_sweep(chk, orch, "groups", make_wl, n_quick=16, n_round=40, attr_fn=attrs,
                    what="run does not abort on ungroupable reads; matrix == linear as (feature, group, value) triples; sum over "
                         "groups = ungrouped count; each (feature, group) cell = documented weighting of the reads whose ground-"
                         "truth group is that group")
    chk.rule = countermachine.MACHINE_RULE + chk.rule
