"""C10 - experiments processed in one invocation are independent of each other."""
import itertools
import json

from . import common
from .. import workload


def combined_problems(files, prefixes):
    """combined_* tables contain exactly the per-experiment columns of the individual tables"""
    probs = []
    for kind in ("gene", "transcript"):
        for what, col in (("counts", "count"), ("tpm", "TPM")):
            name = "combined_%s_%s.tsv" % (kind, what)
            txt = files.get(name)
            if txt is None:
                probs.append("%s missing" % name)
                continue
            lines = [l for l in txt.split("\n") if l]
            hdr = lines[0].split("\t")
            if sorted(hdr[1:]) != sorted(prefixes):
                probs.append("%s: columns %s, experiments %s" % (name, hdr[1:], prefixes))
                continue
            comb = {}
            for l in lines[1:]:
                f = l.split("\t")
                comb[f[0]] = dict(zip(hdr[1:], f[1:]))
            for p in prefixes:
                ind = files.get("%s/%s.%s_%s.tsv" % (p, p, kind, what))
                if ind is None:
                    probs.append("%s/%s.%s_%s.tsv missing" % (p, p, kind, what))
                    continue
                rows = [l.split("\t") for l in ind.split("\n") if l and not l.startswith("#")]
                if what == "counts":
                    rows = [r for r in rows if not r[0].startswith("__")]
                for r in rows:
                    got = comb.get(r[0], {}).get(p)
                    if got is None or got == "" or abs(float(got) - float(r[1])) > 1e-6 * max(1.0, abs(float(r[1]))):
                        probs.append("%s: (%s, %s) = %r, individual table has %s" % (name, r[0], p, got, r[1]))
                        if len(probs) > 10:
                            return probs
                indiv_feats = set(r[0] for r in rows)
                for f, cols in comb.items():
                    if f not in indiv_feats and cols.get(p) not in (None, ""):
                        probs.append("%s: (%s, %s) = %r but the feature is absent from the individual table" % (name, f, p, cols.get(p)))
    return probs


def by_folder(res):
    """{folder: {file class: digest}}; comment lines that carry the folder's own name (GTF title line) are left out"""
    import hashlib
    out = {}
    files = res.get("files")
    for k, v in res["digests"].items():
        if "/" not in k:
            continue
        x = k.split("/")[0]
        if files is not None and k in files:
            body = "\n".join(l for l in files[k].split("\n") if not (l.startswith("#") and x in l.split()))
            v = hashlib.sha256(body.encode()).hexdigest()[:20]
        out.setdefault(x, {})[common.file_class(k)] = v
    return out


def anonymous_problems(chk, res, solos, perm):
    """the folder names are IsoQuant's choice: every experiment must own one output folder whose files equal its stand-alone
    results (compared per file class, i.e. modulo the folder/prefix name)"""
    problems = []
    folders = by_folder(res)
    used = set()
    for i, g in enumerate(solos):
        if g is None or g["exit"] != 0:
            if chk is not None:
                chk.probes["standalone_reference_failed_skipped"] += 1
            continue
        want = by_folder(g).get("E%d" % i, {})
        hit = [x for x, fl in sorted(folders.items()) if x not in used and fl == want]
        if hit:
            used.add(hit[0])
            continue
        pos = list(perm).index(i)
        near = sorted(folders.items(), key=lambda kv: len([c for c in set(want) | set(kv[1]) if want.get(c) != kv[1].get(c)]))
        diff = sorted(c for c in set(want) | set(near[0][1]) if want.get(c) != near[0][1].get(c)) if near else []
        problems.append("experiment E%d (%s of %d in the list) has no output folder with its stand-alone results; folders: %s; "
                        "closest %s differs in %s" % (i, ["first", "second", "third"][pos], len(perm), sorted(folders),
                                                      near[0][0] if near else None, ", ".join(diff[:6])))
    if len(folders) != len(solos):
        problems.append("%d experiments in the list, %d output folders: %s" % (len(solos), len(folders), sorted(folders)))
    return problems


def run(chk, orch):
    quick = chk.tier == "quick"
    chk.rule = ("each evaluation = one multi-experiment invocation (2-3 experiments from one YAML or list file, a permutation "
                "of their order, a cell of --threads/hash seed/schedule) whose per-experiment files are compared byte-wise "
                "with stand-alone single-experiment invocations of the same experiments, plus the combined_* tables against the "
                "individual tables; distinct = distinct (workload, permutation, input mode, threads, hash seed, placement); all "
                "are non-trivial (>= 2 experiments in one interpreter)")
    chk.assumptions = ["stand-alone reference = same experiment name and options, --threads 1, hash seed 0",
                       "experiments differ in read subsets and (some workloads) in polyA content, which drives the per-sample "
                       "polyA requirement switches"]
    rounds = 0
    while True:
        rounds += 1
        wls = []
        fixed = [
            # exact duplicate records in every experiment (process-wide bookkeeping of the duplicate filter)
            ({"seed": 31, "n_chr": 3, "n_exp": 2, "exp_mode": "same", "paralogs": 1, "novel": 1, "unmapped": 3, "dup_records": 7,
              "frag_gene": 1, "genes_per_chr": 4}, {}),
            ({"seed": 32, "n_chr": 3, "n_exp": 3, "exp_mode": "split", "paralogs": 1, "novel": 2, "groups": 3, "unmapped": 2},
             {"read_group": "tag"}),
            ({"seed": 33, "n_chr": 2, "n_exp": 2, "exp_mode": "split", "novel": 2, "novel_cov": 8, "exp_polya": [1, 0],
              "mono": 2, "genes_per_chr": 3}, {"data_type": "pacbio_ccs"}),
            ({"seed": 34, "n_chr": 2, "n_exp": 2, "exp_mode": "same", "novel": 2, "novel_cov": 8, "exp_polya": [0, 1],
              "genes_per_chr": 3}, {"model_strategy": "sensitive_pacbio", "data_type": "pacbio_ccs"}),
            # a single-file and a multi-file experiment; the novel isoforms of the latter are supported by one file only
            ({"seed": 35, "n_chr": 2, "n_exp": 2, "exp_mode": "same", "exp_bams": [1, 2], "novel": 2, "novel_cov": 6,
              "novel_one_file": 1, "genes_per_chr": 3}, {"read_group": "file_name"}),
            # the first experiment comes with short reads, the second does not (YAML only): intergenic long reads that are 4 bp
            # off at a splice site are corrected in the first experiment only
            ({"seed": 37, "n_chr": 3, "n_exp": 2, "exp_mode": "same", "drop_chr_annotation": 1, "illumina": [1, 0], "novel": 1,
              "genes_per_chr": 3, "paralogs": 0}, {"yaml_only": True}),
            ({"seed": 36, "n_chr": 3, "n_exp": 2, "exp_mode": "split", "novel": 3, "novel_cov": 6, "pre_ids": 1,
              "genes_per_chr": 3, "paralogs": 1}, {}),
        ]
        if rounds == 1:
            wls = fixed if not quick else fixed
        else:
            for _ in range(6):
                spec = workload.random_spec(chk.rng)
                opts = common.random_opts(chk.rng, spec)
                spec["n_exp"] = chk.rng.choice([2, 2, 3])
                spec["exp_mode"] = chk.rng.choice(["same", "split"])
                if chk.rng.random() < 0.5:
                    spec["exp_polya"] = [chk.rng.choice([0, 1]) for _ in range(spec["n_exp"])]
                if chk.rng.random() < 0.4:
                    spec["exp_bams"] = [chk.rng.choice([1, 2, 3]) for _ in range(spec["n_exp"])]
                    spec["novel_one_file"] = chk.rng.choice([0, 1])
                    opts["read_group"] = chk.rng.choice([None, "file_name"])
                opts["annotated"] = True
                wls.append((spec, opts))
        plan = {}
        for wi, (spec, opts) in enumerate(wls):
            n = spec["n_exp"]
            # documented: when some experiment has several files and --read_group is not set, the invocation runs with
            # --read_group file_name; "the same options" for the stand-alone references therefore includes it
            fs = workload.full_spec(spec)
            nfiles = [(fs.get("exp_bams") or [fs["n_bams"]] * n + [fs["n_bams"]] * n)[i] if fs.get("exp_bams") and i < len(fs["exp_bams"])
                      else fs["n_bams"] for i in range(n)]
            if opts.get("read_group") is None and max(nfiles) > 1:
                opts = dict(opts, read_group="file_name")
                wls[wi] = (spec, opts)
            for i in range(n):
                orch.submit(0, "scenarios:pipeline", common.job_args(spec, dict(opts, only_exp=i), common.GOLDEN_CELL, want=["files"]),
                            tag=("solo", wi, i))
            perms = list(itertools.permutations(range(n)))
            if quick:
                perms = perms[:2] if n == 2 else [perms[0], perms[3], perms[5]]
            ci = 0
            for perm in perms:
                modes = ["yaml", "bam_list"] if (not quick or perm == perms[0]) and not opts.get("yaml_only") else ["yaml"]
                if not opts.get("yaml_only") and (perm == perms[-1] if quick else True) and (not quick or wi < 3):
                    # list files whose experiments are separated by empty lines, or carry one and the same name: every
                    # experiment must still get its own results (the folder names are IsoQuant's choice)
                    modes += ["bam_list:blank", "bam_list:dup"]
                for mode in modes:
                    for w in ([1, 2, 4] if not quick else ([1, 3] if ":" not in mode else [2])):
                        cell = dict(common.GOLDEN_CELL, threads=w, hashseed=chk.rng.choice([0, 1, 2]),
                                    sched={"policy": chk.rng.choice(common.POLICIES), "seed": chk.rng.randrange(1000)},
                                    high_memory=(ci % 3 == 2))
                        o = dict(opts, exp_order=list(perm), input_mode=mode.split(":")[0])
                        if ":" in mode:
                            o["list_names"] = mode.split(":")[1]
                        a = common.job_args(spec, o, cell, want=["files"] if True else [])
                        fnm = "scenarios:pipeline"
                        if wi == 0 and ci in (1, 3) and ":" not in mode:
                            # the joint invocation is killed while a later experiment is being processed and resumed: every
                            # experiment must still equal its stand-alone run
                            fnm = "scenarios:crash_resume"
                            a["fault"] = {"kind": "kill", "stage": "construct", "label_rx": r"_processed$", "nth": -1 - ci // 2, "phase": "after"}
                            a["resume"] = {}
                            chk.faults["kill_during_a_later_experiment+resume"] += 1
                        orch.submit(cell["hashseed"], fnm, a, tag=("multi", wi, ci))
                        plan[(wi, ci)] = (perm, mode, cell, a)
                        ci += 1
        solo, multi = {}, {}
        for jid, tag, r in orch.results():
            if not r.get("ok"):
                chk.harness_error(r.get("err"))
                continue
            chk.count_run(r["res"])
            if tag[0] == "solo":
                solo[(tag[1], tag[2])] = r["res"]
            else:
                multi[(tag[1], tag[2])] = r["res"]
        for (wi, ci), res in sorted(multi.items()):
            spec, opts = wls[wi]
            perm, mode, cell, a = plan[(wi, ci)]
            if res.get("harness_error"):
                chk.harness_error(res["harness_error"])
                continue
            chk.evaluations += 1
            chk.distinct.add(json.dumps([wi, rounds, perm, mode, cell["threads"], cell["hashseed"], res["placement"]]))
            chk.faults["experiment_order_permutation"] += 1 if list(perm) != sorted(perm) else 0
            if cell["threads"] > 1:
                chk.faults["worker_placement"] += 1
            chk.sample({"workload": spec, "opts": opts, "order": perm, "input_mode": mode, "cell": cell}, cap=4)
            problems = []
            if res["exit"] != 0:
                problems.append("multi-experiment run failed: exit %s %s" % (res["exit"], res.get("failure_site")))
            elif ":" in mode:
                problems += anonymous_problems(chk, res, [solo.get((wi, i)) for i in range(spec["n_exp"])], perm)
            else:
                for i in range(spec["n_exp"]):
                    g = solo.get((wi, i))
                    if g is None or g["exit"] != 0:
                        chk.probes["standalone_reference_failed_skipped"] += 1
                        continue
                    name = "E%d" % i
                    want = {k: v for k, v in g["digests"].items() if k.startswith(name + "/")}
                    got = {k: v for k, v in res["digests"].items() if k.startswith(name + "/")}
                    bad = sorted(k for k in set(want) | set(got) if want.get(k) != got.get(k))
                    if bad:
                        pos = list(perm).index(i)
                        problems.append("experiment %s (processed %s of %d) differs from its stand-alone run in: %s" % (
                            name, ["first", "second", "third"][pos], len(perm), ", ".join(common.file_class(b) for b in bad)))
                if ":" not in mode:
                    cp = combined_problems(res.get("files") or {}, ["E%d" % i for i in range(spec["n_exp"])])
                    problems += cp
            if not problems:
                continue
            first = problems[0]
            import re
            attrs = {"kind": re.sub(r"E\d|\d+", "N", first)[:90], "threads": cell["threads"], "mode": mode}
            a2 = dict(a)
            a2.pop("want", None)
            chk.violation("independent", attrs, " || ".join(problems[:4]), {
                "engine": "pipeline", "oracle": "module:checks.c10",
                "solos": [{"hashseed": 0, "fn": "scenarios:pipeline",
                           "args": common.job_args(spec, dict(opts, only_exp=i), common.GOLDEN_CELL)} for i in range(spec["n_exp"])],
                "run": {"hashseed": cell["hashseed"], "fn": "scenarios:crash_resume" if a2.get("fault") else "scenarios:pipeline", "args": a2},
                "expected": {"problems": problems[:6], "trace_sha256": res.get("trace_sha")}})
        if quick or chk.time_left() < 60:
            break


def replay(doc, orch):
    ids = [orch.submit(j["hashseed"], j["fn"], dict(j["args"], want=["files"])) for j in doc["solos"]]
    rid = orch.submit(doc["run"]["hashseed"], doc["run"]["fn"], dict(doc["run"]["args"], want=["files"]))
    out = orch.run_all()
    res = out[rid][1]["res"]
    problems = []
    if res["exit"] != 0:
        problems.append("multi-experiment run failed: exit %s\n%s" % (res["exit"], res.get("log_tail")))
    n = len(ids)
    if (doc["run"]["args"].get("opts") or {}).get("list_names"):
        perm = (doc["run"]["args"].get("opts") or {}).get("exp_order") or list(range(n))
        problems += anonymous_problems(None, res, [out[j][1]["res"] for j in ids], perm)
        return bool(problems), "\n".join(problems)
    for i, jid in enumerate(ids):
        g = out[jid][1]["res"]
        name = "E%d" % i
        want = {k: v for k, v in g["digests"].items() if k.startswith(name + "/")}
        got = {k: v for k, v in res["digests"].items() if k.startswith(name + "/")}
        bad = sorted(k for k in set(want) | set(got) if want.get(k) != got.get(k))
        if bad:
            problems.append("experiment %s differs from its stand-alone run in: %s" % (name, bad))
    problems += combined_problems(res.get("files") or {}, ["E%d" % i for i in range(n)])
    return bool(problems), "\n".join(problems)
