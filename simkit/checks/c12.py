"""C12 - equivalent representations of the same input give identical results (cache histories, stream partitions)."""
import json

from . import common
from .. import workload

TINY = {"n_chr": 2, "genes_per_chr": 2, "reads_per_iso": 2, "paralogs": 0, "novel": 1, "novel_cov": 4, "unmapped": 1,
        "supplementary": 0, "lowmapq": 0, "intergenic": 1}
PART_FILES = ("read_assignments.tsv", "corrected_reads.bed", "gene_counts.tsv", "transcript_counts.tsv")


def gen_history(rng, max_ops=6, two=False):
    """a short sequence of cache operations; every 'run' is a single actor.  two=True: two different annotations with
    the same file name in different folders (workloads 0 and 1) compete for the same output folders"""
    steps = []
    n = rng.randrange(2, max_ops + 1)
    outs = ["A", "B", "C"] if not two else ["A", "B"]
    have_run = False
    for i in range(n):
        r = rng.random()
        if not have_run or r < 0.55 or i == n - 1:
            o = {}
            x = rng.random()
            if x < 0.25:
                o["gtf_repr"] = "gz"
            elif x < 0.35:
                o["gtf_repr"] = "db"
            if rng.random() < 0.3:
                o["complete_genedb"] = True
            if rng.random() < 0.15:
                o["clean_start"] = True
            steps.append({"run": [{"wl": rng.choice([0, 1]) if two else 0, "opts": o, "out": rng.choice(outs)}],
                          "sched": {"policy": "serial", "seed": 0}})
            if not two and o.get("gtf_repr") != "db" and i < n - 1 and rng.random() < 0.12:
                # the annotation is replaced while this run converts it
                steps[-1]["during"] = {"op": "edit_gtf", "wl": 0, "nth_commit": rng.choice([2, 3, 5, 9, 14])}
            have_run = True
        elif r < 0.75:
            steps.append({"op": "edit_gtf", "wl": 0})
        elif r < 0.80:
            steps.append({"op": "touch_gtf", "wl": 0})
        elif r < 0.87:
            steps.append({"op": "restore_old_gtf", "wl": 0})
        elif r < 0.95:
            steps.append({"op": "delete_db", "out": rng.choice(outs)})
        else:
            steps.append({"op": "wipe_cache"})
    return steps


def run(chk, orch):
    quick = chk.tier == "quick"
    chk.rule = ("three kinds of evaluations: (H) a seeded history of <= 6 cache operations (run with gtf/gz/db x --complete_genedb "
                "x --clean_start into one of three output folders, edit_gtf, touch_gtf, delete_db, wipe_cache) executed by real "
                "IsoQuant invocations under one HOME with logical mtimes - after every run the database actually used must have "
                "the feature digest of a fresh conversion of the CURRENT annotation with the CURRENT flags; (R) the same workload "
                "given as .gtf/.gtf.gz/.db x --complete_genedb, all outputs byte-identical to the .gtf run; (P) the same reads dealt "
                "into 1..4 BAM files of one experiment, read assignments/BED/ungrouped tables equal as multisets of lines. "
                "distinct = distinct histories / representation cells / partitions")
    chk.assumptions = ["mtimes are logical: a content change always changes the mtime, a touch changes only the mtime",
                       "fresh-conversion digests are computed by the harness with the real gffutils and IsoQuant's arguments",
                       "--complete_genedb equivalence is only asserted for annotations with gene and transcript records"]
    rounds = 0
    while True:
        rounds += 1
        # ---------------- H: cache histories
        nh = 24 if quick else 120
        hist = {}
        for k in range(nh):
            spec = dict(TINY, seed=chk.rng.randrange(1 << 20))
            if k % 4 == 2:
                # some genes come without gene/transcript records: a conversion with and one without --complete_genedb differ,
                # the cache must keep them apart
                spec["gtf_meta"] = 2
                spec["genes_per_chr"] = 3
            two = k % 3 == 1
            steps = gen_history(chk.rng, two=two)
            a = {"workloads": [{"spec": spec}], "steps": steps}
            if two:
                spec2 = dict(TINY, seed=chk.rng.randrange(1 << 20), genes_per_chr=3)
                a["workloads"] = [{"spec": spec, "same_basename_dir": True}, {"spec": spec2, "same_basename_dir": True}]
            orch.submit(0, "scenarios:cache_session", a, tag=("h", k), timeout=180)
            hist[k] = a
        # directed histories (the canonical stale-cache scenarios), first round only
        if rounds == 1:
            T = dict(TINY, seed=4711)
            T2 = dict(TINY, seed=4712, genes_per_chr=3)
            ser = {"policy": "serial", "seed": 0}

            def R(wl, out, **o):
                return {"run": [{"wl": wl, "opts": o, "out": out}], "sched": ser}
            templates = [
                ([{"spec": T, "same_basename_dir": True}, {"spec": T2, "same_basename_dir": True}], [R(0, "A"), R(1, "A"), R(0, "A")]),
                ([{"spec": T, "same_basename_dir": True}, {"spec": T2, "same_basename_dir": True}], [R(0, "A"), R(1, "A"), R(1, "B"), R(0, "B"), R(1, "A")]),
                ([{"spec": T}], [R(0, "A"), {"op": "edit_gtf", "wl": 0}, R(0, "B"), R(0, "A")]),
                ([{"spec": T}], [R(0, "A"), {"op": "delete_db", "out": "A"}, R(0, "B"), R(0, "A")]),
                ([{"spec": T}], [R(0, "A"), {"op": "touch_gtf", "wl": 0}, R(0, "A"), R(0, "B")]),
                ([{"spec": T}], [R(0, "A", complete_genedb=True), R(0, "B"), R(0, "A", complete_genedb=True)]),
                ([{"spec": T}], [R(0, "A"), {"op": "restore_old_gtf", "wl": 0}, R(0, "A"), R(0, "B")]),
                ([{"spec": T}], [R(0, "A", gtf_repr="gz"), {"op": "edit_gtf", "wl": 0}, R(0, "A", gtf_repr="gz"), R(0, "B")]),
                # an annotation with partly missing gene/transcript records, converted with and without --complete_genedb
                ([{"spec": dict(T, gtf_meta=2, genes_per_chr=3)}], [R(0, "A", complete_genedb=True), R(0, "B"), R(0, "A", complete_genedb=True), R(0, "C")]),
                ([{"spec": dict(T, gtf_meta=2, genes_per_chr=3)}], [R(0, "A"), R(0, "B", complete_genedb=True), R(0, "A")]),
                # the annotation is replaced WHILE a run converts it (at the 3rd / 9th commit of the conversion): later runs
                # must not be handed the conversion of the old content (the run that overlapped the edit is not judged)
                ([{"spec": T}], [dict(R(0, "A"), during={"op": "edit_gtf", "wl": 0, "nth_commit": 3}), R(0, "B"), R(0, "A")]),
                ([{"spec": T}], [dict(R(0, "A", gtf_repr="gz"), during={"op": "edit_gtf", "wl": 0, "nth_commit": 9}), R(0, "A", gtf_repr="gz")]),
            ]
            # a run that was handed the cached conversion in ANOTHER run's folder is killed; that folder is then re-used for another
            # annotation of the same file name; the killed run is resumed: it must not go on with the replaced database
            for kk in (12, 18):
                templates.append(([{"spec": T, "same_basename_dir": True}, {"spec": T2, "same_basename_dir": True}],
                                  [R(0, "A"), dict(R(0, "B"), fault={"kind": "kill_actor", "index": kk, "phase": "after"}), R(1, "A"),
                                   R(0, "B", resume=True)]))
            for ti, (wl_, st_) in enumerate(templates):
                a = {"workloads": wl_, "steps": st_}
                orch.submit(0, "scenarios:cache_session", a, tag=("h", 1000 + ti), timeout=180)
                hist[1000 + ti] = a
        # ---------------- F: reuse of an output folder that holds another unpacked reference of the same name
        nf = 2 if quick else 6
        freuse = {}
        for k in range(nf):
            spec = workload.random_spec(chk.rng, "tiny" if k % 2 else "small")
            spec["n_exp"] = 1
            cell = common.random_cell(chk.rng)
            # --check_canonical makes every spliced read's line depend on the reference sequence
            spec["novel"] = max(1, spec.get("novel", 1))
            a = {"spec": spec, "opts": common.cell_opts({"annotated": True, "check_canonical": True}, cell), "sched": cell["sched"],
                 "old_gz": k % 2 == 1}
            orch.submit(cell["hashseed"], "scenarios:folder_reuse", a, tag=("f", k))
            freuse[k] = (a, cell)
        # BAM merger machine
        nmm = 4 if quick else 16
        for k in range(nmm):
            orch.submit(k % 2, "machines.c12:run", {"seed": chk.seed * 1000 + rounds * 100 + k, "max_examples": 60 if quick else 200},
                        tag=("mm", k, k % 2), timeout=600)
        # ---------------- R: representations
        rep = {}
        nr = 2 if quick else 6
        for k in range(nr):
            spec = workload.random_spec(chk.rng)
            opts = common.random_opts(chk.rng, spec)
            opts["annotated"] = True
            spec["gtf_meta"] = 2 if k % 2 == 1 else 1      # odd workloads: some genes without gene/transcript records
            # all representations of one workload run under the same hash seed (attribution rule: a difference that
            # is due to the hash seed alone is a C06 matter); threads/schedule/memory mode still vary
            hs = 0 if quick else chk.rng.choice([0, 1, 2, 3])
            for repr_ in ("gtf", "gz", "db", "refgz"):
                for comp in (False, True):
                    if repr_ == "refgz" and comp:
                        continue
                    cell = common.random_cell(chk.rng) if (repr_, comp) != ("gtf", False) else dict(common.GOLDEN_CELL)
                    cell["hashseed"] = hs
                    o = dict(opts, gtf_repr=repr_, complete_genedb=comp)
                    if repr_ == "refgz":
                        # the reference genome as plain-gzip FASTA instead of plain FASTA
                        o = dict(opts, gtf_repr="gtf", complete_genedb=False, ref_gz=True)
                    orch.submit(cell["hashseed"], "scenarios:pipeline", common.job_args(spec, o, cell), tag=("r", k, repr_, comp))
                    rep[(k, repr_, comp)] = (spec, o, cell)
        # ---------------- P: partitions
        part = {}
        npart = 4 if quick else 8
        for k in range(npart):
            spec = workload.random_spec(chk.rng)
            spec["n_exp"] = 1
            spec["groups"] = 0
            # read-through reads join the read islands of neighbouring genes: how the chromosome is cut into regions then
            # depends on which file contributes which read
            spec["bridge"] = 3
            spec["long_locus"] = 1 if k % 2 == 0 else spec.get("long_locus", 0)
            opts = {"data_type": chk.rng.choice(["nanopore", "pacbio_ccs"]), "annotated": True}
            hs = 0 if quick else chk.rng.choice([0, 1, 2, 3])
            split = ["random", "chunks", "tiny"][k % 3]
            for nb in (1, 2, 3, 4):
                # files of one experiment may list the reference sequences in different orders (nb == 3 and, seeded, others)
                s2 = dict(spec, n_bams=nb, bam_split=split, sq_order=1 if nb in (2, 3) else 0)
                cell = common.random_cell(chk.rng) if nb > 1 else dict(common.GOLDEN_CELL)
                cell["hashseed"] = hs
                if nb == 3:
                    cell["high_memory"] = False      # the streaming merger is used for the region re-fetch in this mode only
                o = dict(opts, bam_order=chk.rng.randrange(5) if nb > 1 else None)
                orch.submit(cell["hashseed"], "scenarios:pipeline", common.job_args(s2, o, cell), tag=("p", k, nb))
                part[(k, nb)] = (s2, o, cell)
        res = {}
        for jid, tag, r in orch.results():
            if not r.get("ok"):
                chk.harness_error(r.get("err"))
                continue
            res[tag] = r["res"]
        for tag, r in sorted(res.items()):
            if tag[0] != "mm":
                continue
            if r.get("error"):
                chk.harness_error("machine: " + r["error"])
                continue
            chk.evaluations += r["examples"]
            chk.extra["merger_machine_cases"] = chk.extra.get("merger_machine_cases", 0) + r["examples"]
            chk.probes["merger_file_exhausted_early_with_3+_files"] += r.get("file_exhausted_early_with_3+_files", 0)
            for i in range(r["distinct"]):
                chk.distinct.add("MM%d/%d/%d" % (rounds, tag[1], i))
            for s_ in r.get("samples", [])[:1]:
                chk.sample({"kind": "records dealt into files (merger machine)", "case": s_}, cap=4)
            if r.get("fail"):
                f = r["fail"]
                chk.violation("P:merge", {"kind": f["problems"][0][0]}, f["problems"][0][1],
                              {"engine": "machine:c12", "oracle": "module:checks.c12", "kind": "MM", "case": f["case"], "hashseed": tag[2]})
        for k, (a, cell) in freuse.items():
            r = res.get(("f", k))
            if r is None:
                continue
            chk.runs += 3
            chk.events_simulated += r.get("events", 0)
            if r["fresh"]["exit"] != 0:
                chk.probes["reference_failed_skipped"] += 1
                continue
            chk.evaluations += 1
            chk.distinct.add("F" + json.dumps([rounds, k, a["spec"]["seed"]]))
            chk.faults["output_folder_reused_after_reference_changed"] += 1
            d2, d3 = r["second"]["digests"], r["fresh"]["digests"]
            bad = sorted(x for x in set(d2) | set(d3) if d2.get(x) != d3.get(x))
            if r["second"]["exit"] != 0:
                bad = ["<exit %s>" % r["second"]["exit"]]
            if bad:
                chk.violation("F:folder", {"files": ",".join(sorted(set(common.file_class(b) for b in bad)))[:200]},
                              "plain-gzip reference in a reused output folder (which holds the unpacked copy of ANOTHER reference of "
                              "the same name) gives different outputs than the plain FASTA in a fresh folder: %s" % bad[:6],
                              {"engine": "pipeline", "oracle": "module:checks.c12", "kind": "F", "args": a, "hashseed": cell["hashseed"]})
        # judge H
        for k, a in hist.items():
            r = res.get(("h", k))
            if r is None:
                continue
            chk.runs += sum(1 for s in a["steps"] if "run" in s)
            chk.events_simulated += r.get("events", 0)
            chk.evaluations += 1
            sig = json.dumps([("run", s["run"][0].get("wl", 0), s["run"][0]["opts"], s["run"][0]["out"]) if "run" in s else s["op"] for s in a["steps"]], sort_keys=True)
            chk.distinct.add("H" + sig)
            chk.sample({"kind": "cache history", "steps": json.loads(sig)}, cap=3)
            for s in a["steps"]:
                if "op" in s:
                    chk.faults["cache_op_" + s["op"]] += 1
            runs_seen = 0
            for si, (st, sr) in enumerate(zip(a["steps"], r["steps"])):
                if "run" not in st:
                    continue
                runs_seen += 1
                if sr.get("harness_error"):
                    chk.harness_error(sr["harness_error"])
                    break
                ar = sr["actors"][0]
                o = st["run"][0]["opts"]
                if st.get("during") and sr.get("during_fired"):
                    chk.faults["annotation_replaced_during_conversion"] += 1
                    continue        # may legitimately work with the old or the new content
                if ar["exit"] == "killed":
                    chk.faults["run_killed_after_it_adopted_a_cached_conversion"] += 1
                    continue        # the injected fault; the resumed run (a later step) is judged
                prefix_ops = [("run" if "run" in x else x["op"]) for x in a["steps"][:si]]
                attrs = {"repr": o.get("gtf_repr", "gtf"), "complete": bool(o.get("complete_genedb")),
                         "after": ",".join(prefix_ops[-3:])}
                if ar["exit"] != 0:
                    attrs["symptom"] = "exit%s:%s" % (ar["exit"], ar.get("failure_site"))
                    chk.violation("H:run_ok", attrs, "step %d of history %s: run fails: %s\n%s" % (si, sig, ar.get("failure_site"), (ar.get("log_tail") or "")[-300:]),
                                  {"engine": "cache", "oracle": "module:checks.c12", "kind": "H", "session": a})
                    break
                if ar.get("db_foreign"):
                    chk.probes["cached_conversion_reused"] += 1
                if ar.get("db_digest") and ar["db_digest"] != ar.get("fresh_digest"):
                    attrs["symptom"] = "stale-or-foreign-db"
                    chk.violation("H:fresh", attrs,
                                  "step %d of history %s: database used (%s, %s) is not a conversion of the current annotation "
                                  "with the current flags (%s)" % (si, sig, ar.get("db_used"), ar["db_digest"], ar["fresh_digest"]),
                                  {"engine": "cache", "oracle": "module:checks.c12", "kind": "H", "session": a})
                    break
        # judge R
        for (k, repr_, comp), (spec, o, cell) in rep.items():
            r = res.get(("r", k, repr_, comp))
            # with records missing, --complete_genedb legitimately changes the result: compare within one setting of the flag
            gcomp = comp if spec.get("gtf_meta") == 2 else False
            g = res.get(("r", k, "gtf", gcomp))
            if r is None or g is None:
                continue
            chk.count_run(r)
            if (repr_, comp) == ("gtf", gcomp):
                continue
            chk.evaluations += 1
            chk.distinct.add("R" + json.dumps([k, rounds, repr_, comp]))
            chk.faults["representation_" + repr_ + ("+complete" if comp else "")] += 1
            if g["exit"] != 0:
                chk.probes["reference_failed_skipped"] += 1
                continue
            bad = sorted(x for x in set(g["digests"]) | set(r["digests"]) if g["digests"].get(x) != r["digests"].get(x))
            if r["exit"] != 0:
                bad = ["<exit %s %s>" % (r["exit"], r.get("failure_site"))]
            if bad:
                gspec, go, gcell = rep[(k, "gtf", gcomp)]
                chk.violation("R:equal", {"repr": repr_, "complete": comp, "files": ",".join(sorted(set(common.file_class(b) for b in bad)))[:200]},
                              "annotation as %s%s gives different outputs than as .gtf: %s" % (repr_, " + --complete_genedb" if comp else "", bad[:6]),
                              {"engine": "pipeline", "oracle": "golden_equality",
                               "golden": {"hashseed": gcell["hashseed"], "fn": "scenarios:pipeline", "args": common.job_args(gspec, go, gcell)},
                               "run": {"hashseed": cell["hashseed"], "fn": "scenarios:pipeline", "args": common.job_args(spec, o, cell)}})
        # judge P
        for (k, nb), (spec, o, cell) in part.items():
            r = res.get(("p", k, nb))
            g = res.get(("p", k, 1))
            if r is None or g is None:
                continue
            chk.count_run(r)
            if nb == 1:
                continue
            chk.evaluations += 1
            chk.distinct.add("P" + json.dumps([k, rounds, nb, o.get("bam_order")]))
            chk.faults["records_dealt_into_%d_files" % nb] += 1
            if g["exit"] != 0:
                continue
            bad = []
            if r["exit"] != 0:
                bad = ["<exit %s %s>" % (r["exit"], r.get("failure_site"))]
            else:
                for name, dg in g["sorted_digests"].items():
                    if name.endswith(PART_FILES) and r["sorted_digests"].get(name) != dg:
                        bad.append(name)
            if bad:
                gs, go, gc = part[(k, 1)]
                chk.violation("P:multiset", {"n_bams": nb, "files": ",".join(sorted(set(common.file_class(b) for b in bad)))},
                              "reads split over %d BAM files give different records than one BAM: %s" % (nb, bad),
                              {"engine": "pipeline", "oracle": "module:checks.c12", "kind": "P",
                               "golden": {"hashseed": gc["hashseed"], "fn": "scenarios:pipeline", "args": common.job_args(gs, go, gc)},
                               "run": {"hashseed": cell["hashseed"], "fn": "scenarios:pipeline", "args": common.job_args(spec, o, cell)}})
        if quick or chk.time_left() < 90:
            break


def replay(doc, orch):
    if doc.get("kind") == "MM":
        jid = orch.submit(doc.get("hashseed", 0), "machines.c12:replay_case", {"case": doc["case"]})
        r = orch.run_all()[jid][1]
        if not r.get("ok"):
            return False, "harness: %s" % r.get("err")
        probs = r["res"]["problems"]
        return bool(probs), "\n".join("%s: %s" % (k, t) for k, t in probs) + "\ncase: " + json.dumps(doc["case"])
    if doc.get("kind") == "F":
        jid = orch.submit(doc["hashseed"], "scenarios:folder_reuse", doc["args"])
        r = orch.run_all()[jid][1]
        if not r.get("ok"):
            return False, "harness: %s" % r.get("err")
        d2, d3 = r["res"]["second"]["digests"], r["res"]["fresh"]["digests"]
        bad = sorted(x for x in set(d2) | set(d3) if d2.get(x) != d3.get(x))
        return bool(bad) or r["res"]["second"]["exit"] != 0, "differs: %s" % bad
    if doc.get("kind") == "P":
        i1 = orch.submit(doc["golden"]["hashseed"], doc["golden"]["fn"], doc["golden"]["args"])
        i2 = orch.submit(doc["run"]["hashseed"], doc["run"]["fn"], doc["run"]["args"])
        out = orch.run_all()
        g, r = out[i1][1]["res"], out[i2][1]["res"]
        bad = [n for n, d in g["sorted_digests"].items() if n.endswith(PART_FILES) and r["sorted_digests"].get(n) != d]
        if r["exit"] != 0:
            bad.append("exit %s" % r["exit"])
        return bool(bad), "differs as multisets: %s" % bad
    a = doc["session"]
    sid = orch.submit(0, "scenarios:cache_session", a, timeout=180)
    out = orch.run_all()
    r = out[sid][1]
    if not r.get("ok"):
        return False, "harness: %s" % r.get("err")
    msgs = []
    for si, (st, sr) in enumerate(zip(a["steps"], r["res"]["steps"])):
        if "run" not in st:
            continue
        ar = sr["actors"][0]
        if ar["exit"] != 0:
            msgs.append("step %d: run fails %s" % (si, ar.get("failure_site")))
            break
        if ar.get("db_digest") and ar["db_digest"] != ar.get("fresh_digest"):
            msgs.append("step %d: database used %s (%s) != fresh conversion (%s)" % (si, ar.get("db_used"), ar["db_digest"], ar["fresh_digest"]))
            break
    return bool(msgs), "\n".join(msgs)
