"""C15 - saved read assignments round-trip losslessly and can be reused."""
import json

from . import common
from .. import workload


def tolerated_kinds(chk):
    kinds = []
    for e in chk.findings.get("entries", []):
        if e.get("status") == "known" and e.get("property") == "C15" and e.get("clause") == "machine":
            k = (e.get("match") or {}).get("kind")
            kinds += k if isinstance(k, list) else [k]
    return [k for k in kinds if k]


def reuse_diff(first, second):
    """files in which the reusing run differs from the saving run.  Several experiments: the i-th saved prefix must have a
    folder of its own in the second run with identical files (folder names are IsoQuant's choice, matched by content)"""
    d1, d2 = first["digests"], second["digests"]
    if len(first.get("prefixes") or []) <= 1:
        return sorted(k for k in set(d1) | set(d2) if d1.get(k) != d2.get(k))

    def by_folder(d):
        out = {}
        for k, v in d.items():
            out.setdefault(k.split("/")[0], {})[k.split("/", 1)[1]] = v
        return out
    f1, f2 = by_folder(d1), by_folder(d2)
    bad, used = [], set()
    for p in first["prefixes"]:
        want = f1.get(p, {})
        hit = [x for x in sorted(f2) if x not in used and f2[x] == want]
        if hit:
            used.add(hit[0])
            continue
        near = min(sorted(f2), key=lambda x: len([c for c in set(want) | set(f2[x]) if want.get(c) != f2[x].get(c)])) if f2 else None
        diff = sorted(c for c in set(want) | set(f2.get(near, {})) if want.get(c) != f2.get(near, {}).get(c))
        bad.append("saved experiment %s: no folder of the reusing run (%s) reproduces it; closest %s differs in %s" % (
            p, ",".join(sorted(f2)), near, ",".join(diff[:5])))
    return bad


def run(chk, orch):
    quick = chk.tier == "quick"
    chk.rule = ("two layers. (M) machine: a Hypothesis RuleBasedStateMachine builds a stream with the rules add_gene_info / "
                "add_read (every field from its documented domain: None ids, empty lists, negative offsets, sentinel positions, all "
                "enum members, UTF-8 and long strings, every tagged dict value type) / close_and_read_back, writes it with the real "
                "TmpFileAssignmentPrinter and reads it with BOTH real readers: field-wise equality for the full reader, projection "
                "equality and identical record sequence (byte alignment) for the abridged one, and equality of the compact record "
                "built from the object (--high_memory path) with the one built from the stream; a fourth rule round-trips the "
                "*_multimappers_* framing and the _info file. one evaluation = one closed stream. (P) pipeline: a run with "
                "--keep_tmp followed by a second invocation with --read_assignments under another hash seed/threads/schedule must "
                "reproduce the first run's outputs")
    chk.assumptions = ["penalties are compared up to the format's 2^-20 quantum", "exon lists of a read are non-empty (every alignment "
                       "has an exon); strings are shorter than 65535 bytes"]
    tol = tolerated_kinds(chk)
    rounds = 0
    while True:
        rounds += 1
        nm = 8 if quick else 32
        per = 60 if quick else 200
        for k in range(nm):
            hs = k % 4
            orch.submit(hs, "machines.c15:run", {"seed": chk.seed * 1000 + rounds * 100 + k, "max_examples": per, "tolerated": tol},
                        tag=("m", k, hs), timeout=900)
        np_ = 4 if quick else 12
        reuse = {}
        for k in range(np_):
            spec = workload.random_spec(chk.rng)
            opts = common.random_opts(chk.rng, spec)
            # every fourth reuse scenario saves two experiments and reuses both (--read_assignments <prefix1> <prefix2>)
            spec["n_exp"] = 2 if k % 4 == 3 else 1
            spec["exp_mode"] = "split"
            spec["n_bams"] = 1
            spec["exp_bams"] = None
            if k % 4 == 2:
                # several files with file-name grouping (technical replicas): novel isoforms supported by one file only
                spec.update(n_bams=chk.rng.choice([2, 3]), novel=2, novel_cov=6, novel_one_file=1)
                opts["read_group"] = "file_name"
            spec["split_gene"] = 1 if k % 2 == 0 else spec.get("split_gene", 0)     # consecutive gene-info records with one span
            spec["long_locus"] = 1 if k % 4 == 1 else spec.get("long_locus", 0)
            if opts.get("read_group") == "file_name" and spec["n_bams"] == 1:
                opts["read_group"] = "tag"
            c1, c2 = common.random_cell(chk.rng), common.random_cell(chk.rng)
            a = {"spec": spec, "opts": common.cell_opts(opts, c1), "opts2": common.cell_opts(opts, c2), "sched": c1["sched"],
                 "sched2": c2["sched"], "bufsize": c1["bufsize"]}
            if k % 2 == 0:
                a["restart_again"] = True       # "can be reused": a second restart from the same saved assignments
            orch.submit(c2["hashseed"], "scenarios:reuse", a, tag=("p", k))
            reuse[k] = (a, c1, c2)
        for jid, tag, r in orch.results():
            if not r.get("ok"):
                chk.harness_error(r.get("err"))
                continue
            res = r["res"]
            if tag[0] == "m":
                if res.get("error"):
                    chk.harness_error("machine: " + res["error"])
                    continue
                chk.evaluations += res["distinct"]
                chk.extra["machine_streams"] = chk.extra.get("machine_streams", 0) + res["examples"]
                chk.extra["machine_records_written"] = chk.extra.get("machine_records_written", 0) + res["records"]
                chk.extra["machine_rule_steps"] = chk.extra.get("machine_rule_steps", 0) + res["steps"]
                for i in range(res["distinct"]):
                    chk.distinct.add("M%d/%d/%d" % (rounds, tag[1], i))
                for s in res.get("samples", [])[:1]:
                    chk.sample({"kind": "stream (first records)", "items": s}, cap=2)
                for kind, kv in (res.get("known") or {}).items():
                    chk.violation("machine", {"kind": kind}, kv["example"]["text"],
                                  {"engine": "machine:c15", "oracle": "module:checks.c15", "payload": kv["example"]["payload"],
                                   "what_payload": kv["example"]["what"], "hashseed": tag[2]})
                if res.get("fail"):
                    f = res["fail"]
                    chk.violation("machine", {"kind": f["problems"][0][0]}, f["problems"][0][1],
                                  {"engine": "machine:c15", "oracle": "module:checks.c15", "payload": f["payload"],
                                   "what_payload": f["what"], "hashseed": tag[2], "expected": {"problems": f["problems"]}})
            else:
                a, c1, c2 = reuse[tag[1]]
                chk.runs += 2
                chk.events_simulated += res.get("events", 0)
                if res["first"]["exit"] != 0:
                    # the saving run itself re-reads its intermediate files in the second stage: a failure there is a broken
                    # round trip inside one run (failures before anything was saved are not judged here)
                    tail = res["first"].get("log_tail") or ""
                    if "construct_models_in_parallel" in tail or "process_assigned_reads" in tail or "deserialize" in tail \
                            or "load_read_info" in tail:
                        chk.evaluations += 1
                        chk.violation("reuse", {"files": "<saving run fails while re-reading its own intermediate files>"},
                                      "the run that saves the assignments fails in its second stage: %s" % tail[-500:],
                                      {"engine": "pipeline", "oracle": "module:checks.c15", "kind": "P", "args": a, "hashseed": c2["hashseed"]})
                    else:
                        chk.probes["first_run_failed_skipped"] += 1
                    continue
                chk.evaluations += 1
                chk.distinct.add("P" + json.dumps([rounds, tag[1], c2["hashseed"], c2["threads"], res["second"].get("placement")]))
                chk.faults["reuse_under_other_hashseed/threads/schedule"] += 1
                chk.sample({"kind": "reuse", "workload": a["spec"], "first_cell": c1, "second_cell": c2}, cap=4)
                s = res["second"]
                bad = []
                if s["exit"] != 0:
                    bad = ["<exit %s %s>" % (s["exit"], s.get("failure_site"))]
                else:
                    bad = reuse_diff(res["first"], s)
                if bad:
                    chk.violation("reuse", {"files": ",".join(bad)[:200]},
                                  "run restarted from saved assignments differs from the run that saved them: %s\n%s" % (bad[:8], (s.get("log_tail") or "")[-400:]),
                                  {"engine": "pipeline", "oracle": "module:checks.c15", "kind": "P", "args": a, "hashseed": c2["hashseed"]})
                ag = res.get("again")
                if ag is not None and not bad:
                    chk.evaluations += 1
                    chk.faults["second_restart_from_the_same_saved_assignments"] += 1
                    bad2 = ["<exit %s %s>" % (ag["exit"], ag.get("failure_site"))] if ag["exit"] != 0 else reuse_diff(res["first"], ag)
                    if bad2:
                        chk.violation("reuse", {"files": "second restart: " + ",".join(bad2)[:180]},
                                      "a second restart from the same saved assignments differs from the run that saved them / fails: %s\n%s" % (
                                          bad2[:8], (ag.get("log_tail") or "")[-400:]),
                                      {"engine": "pipeline", "oracle": "module:checks.c15", "kind": "P", "args": a, "hashseed": c2["hashseed"]})
        if quick or chk.time_left() < 90:
            break


def replay(doc, orch):
    if doc.get("kind") == "P":
        jid = orch.submit(doc["hashseed"], "scenarios:reuse", doc["args"])
        r = orch.run_all()[jid][1]
        if not r.get("ok"):
            return False, "harness: %s" % r.get("err")
        res = r["res"]
        if res["first"]["exit"] != 0:
            return True, "saving run exit %s\n%s" % (res["first"]["exit"], res["first"].get("log_tail"))
        s = res.get("second") or {}
        if s.get("exit") != 0:
            return True, "second run exit %s\n%s" % (s.get("exit"), s.get("log_tail"))
        bad = reuse_diff(res["first"], s)
        ag = res.get("again")
        if not bad and ag is not None:
            if ag["exit"] != 0:
                return True, "second restart exit %s\n%s" % (ag["exit"], ag.get("log_tail"))
            bad = ["second restart: " + x for x in reuse_diff(res["first"], ag)]
        return bool(bad), "differs: %s" % bad
    jid = orch.submit(doc.get("hashseed", 0), "machines.c15:replay_case", {"payload": doc["payload"], "what": doc.get("what_payload")})
    r = orch.run_all()[jid][1]
    if not r.get("ok"):
        return False, "harness: %s" % r.get("err")
    probs = r["res"]["problems"]
    return bool(probs), "\n".join("%s: %s" % (k, t) for k, t in probs) + "\npayload:\n" + json.dumps(doc["payload"])[:3000]
