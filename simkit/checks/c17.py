"""C17 - identifiers in the outputs are unique, collision-free and functional."""
import re
from . import common, sweep
from .. import workload


def make_wl(rng, k):
    spec = workload.random_spec(rng)
    opts = common.random_opts(rng, spec)
    spec["novel"] = rng.choice([1, 2, 3])
    spec["pre_ids"] = rng.choice([1, 2]) if (k is None and rng.random() < 0.6) or (k is not None and k % 2 == 0) else 0
    spec["mirror"] = rng.choice([0, 1, 2])
    spec["novel_locus"] = 1 if (k is not None and k % 4 in (0, 1)) or rng.random() < 0.4 else 0
    spec["chr_naming"] = 1 if (k is not None and k % 4 == 0) or rng.random() < 0.25 else 0
    spec["twin_chr"] = 1 if (k is not None and k % 4 == 3) or rng.random() < 0.2 else 0
    spec["antisense"] = rng.choice([0, 1])
    spec["n_chr"] = rng.choice([3, 4, 5])
    if k is not None and k % 4 == 2:
        spec["long_locus"] = 2       # a reference isoform seen in two processing regions of one read island
        if k % 8 == 2:
            # killed in the middle of the model construction (a chromosome half written, not yet marked as processed), then resumed
            opts["force_fault"] = {"kind": "kill", "stage": "construct", "frac": [0.35, 0.6][(k // 8) % 2], "phase": "after"}
    if k is not None and k % 4 == 1:
        # two experiments in one interpreter (--threads 1) that share some novel exons and each have some of their own
        spec.update(n_exp=2, exp_mode="split", novel=3, novel_cov=8, novel_locus=1, outside_exon=2, novel_gene_overlap=2,
                    genes_per_chr=max(3, spec.get("genes_per_chr", 3)), drop_chr_annotation=0)
        opts["annotated"] = True
        opts["force_cell"] = {"threads": 1}
        if k % 16 == 13:
            opts["force_cell"] = {"threads": 1, "sched": {"policy": "serial", "seed": 0}}
            opts["no_fault"] = True
            # ... with an annotation that already carries IsoQuant-style ids (reserved numbers) and the same reads in both experiments
            spec.update(pre_ids=2, exp_mode="same")
    opts["annotated"] = True if spec["pre_ids"] else opts.get("annotated", True)
    return spec, opts


def attrs(probs, spec, opts, cell, res):
    p = probs[0]
    return {"kind": re.sub(r"[0-9]+", "N", p.split(" ", 1)[-1])[:50], "pre_ids": spec.get("pre_ids")}


def run(chk, orch):
    sweep.run_sweep(chk, orch, "ids", make_wl, n_quick=16, n_round=40, attr_fn=attrs,
                    what="transcript/gene ids unique per file, novel ids disjoint from reference ids, exon_id <-> (chr,start,end,"
                         "strand) bijective across both GTFs and all chromosomes, reference exon_ids preserved")
