"""C18 - strand and canonical-site flags are pure functions of the reference sequence (history-free)."""
import json
import re

from . import common
from .. import workload


def tolerated_kinds(chk):
    kinds = []
    for e in chk.findings.get("entries", []):
        if e.get("status") == "known" and e.get("property") == "C18" and e.get("clause") == "machine":
            k = (e.get("match") or {}).get("kind")
            kinds += k if isinstance(k, list) else [k]
    return [k for k in kinds if k]


def run(chk, orch):
    quick = chk.tier == "quick"
    chk.rule = ("two layers. (M) machine: one locus (GeneInfo with a reference region whose five candidate introns carry seeded "
                "dinucleotide pairs: canonical on +, on -, on neither) receives a seeded sequence of up to 8 queries (read or model, "
                "intron subset, strand; StrandDetector.get_strand with polyA/polyT evidence) through the real "
                "IOSupport.check_sites_are_canonical / add_canonical_info_for_model / StrandDetector; every answer must equal a "
                "pure function of (sequence, introns, strand) whatever the prefix of earlier queries - this includes the case the "
                "property singles out (the same intron on opposite strands, both orders). one evaluation = one query sequence. "
                "(P) pipeline: --check_canonical runs of workloads with antisense genes sharing introns and non-canonical genes "
                "under permuted tie order/placement/hash seed; every Canonical flag of reads and transcripts and the strand of "
                "every novel spliced model is recomputed from the FASTA")
    chk.assumptions = ["records whose reported strand is '.' are only checked for a well-formed flag",
                       "novel models sharing an intron with a reference transcript of the other strand are not judged for strand "
                       "(annotation-seeded strands are by design)"]
    tol = tolerated_kinds(chk)
    rounds = 0
    while True:
        rounds += 1
        nm = 8 if quick else 32
        per = 300 if quick else 1500
        for k in range(nm):
            orch.submit(k % 4, "machines.c18:run", {"seed": chk.seed * 1000 + rounds * 100 + k, "max_examples": per, "tolerated": tol},
                        tag=("m", k, k % 4), timeout=900)
        np_ = 8 if quick else 32
        jobs = {}
        for k in range(np_):
            spec = workload.random_spec(chk.rng)
            spec.update(antisense=chk.rng.choice([1, 2, 3]), noncanon=chk.rng.choice([0, 1, 2]), novel=chk.rng.choice([1, 2]),
                        tie_perm=chk.rng.randrange(0, 30), genes_per_chr=chk.rng.choice([3, 4]))
            opts = common.random_opts(chk.rng, spec)
            opts.update(check_canonical=True, annotated=True, report_canonical=chk.rng.choice([None, "auto", "only_canonical", "only_stranded", "all"]))
            # reads (and novel models) with an exon outside the annotated span of their gene
            spec["outside_exon"] = chk.rng.choice([1, 2])
            if k % 2 == 0:
                # two such genes, each with one further read that sticks out of the annotated span on the other side (less far)
                spec["outside_exon"] = 2
            spec["softmask"] = 1 if k % 4 in (2, 3) else 0      # soft-masked (lower-case) stretches of the reference
            if k % 4 == 0:
                # genes whose introns are annotated on BOTH strands (a mirror gene with the same exons on the other strand) and that
                # have unannotated isoforms: the strand of those comes from the genome, whatever the string hash seed
                spec.update(mirror=1, mirror_novel=1, novel=8, novel_cov=6, genes_per_chr=4)
            if k % 2 == 1:
                # unannotated loci with non-canonical introns and polyA / polyT reads: the strand of their models rests on the
                # tail evidence alone (reported only under these settings)
                spec.update(novel_locus=2, polya=1)
                opts["report_canonical"] = ["all", "only_stranded"][(k // 2) % 2]
            cell = common.random_cell(chk.rng)
            if k % 4 == 0:
                cell["hashseed"] = [1, 4, 7, 2, 5, 3, 6, 0][(k // 4) % 8]      # these workloads under pinned, different hash seeds
                if k < 8:
                    # one pinned instance of the structure (5-exon genes on '+' with an exon-skipping isoform, all mirrored)
                    import random as _random
                    spec = workload.random_spec(_random.Random(3))
                    spec.update(antisense=1, noncanon=0, novel=8, novel_cov=6, genes_per_chr=4, mirror=1, mirror_novel=1, n_chr=3,
                                seed=77, polya=1)
                    opts = {"check_canonical": True, "annotated": True}
            a = common.job_args(spec, opts, cell, oracles=["canonical"])
            orch.submit(cell["hashseed"], "scenarios:pipeline", a, tag=("p", k))
            jobs[k] = (spec, opts, cell, a)
        # history of the output folder: it holds the unpacked copy of ANOTHER plain-gzip reference with the same file name
        # (k odd: the new reference file carries an older time stamp); the flags must follow the reference given now
        for k in range(2 if quick else 4):
            spec = workload.random_spec(chk.rng, "small")
            spec.update(n_exp=1, novel=2, noncanon=1, antisense=1)
            cell = common.random_cell(chk.rng)
            a = {"spec": spec, "opts": common.cell_opts({"annotated": True, "check_canonical": True}, cell), "sched": cell["sched"],
                 "old_gz": k % 2 == 1, "oracles": ["canonical"]}
            orch.submit(cell["hashseed"], "scenarios:folder_reuse", a, tag=("f", k))
            jobs[("f", k)] = (spec, a["opts"], cell, a)
        for jid, tag, r in orch.results():
            if not r.get("ok"):
                chk.harness_error(r.get("err"))
                continue
            res = r["res"]
            if tag[0] == "f":
                spec, opts, cell, a = jobs[tag]
                chk.runs += 3
                chk.events_simulated += res.get("events", 0)
                chk.evaluations += 1
                chk.distinct.add("F%d/%d" % (rounds, tag[1]))
                chk.faults["output_folder_with_unpacked_copy_of_another_reference"] += 1
                probs = (res.get("second") or {}).get("oracles", {}).get("canonical") if (res.get("second") or {}).get("oracles") else None
                if res["second"]["exit"] != 0:
                    probs = ["run in the reused folder failed with exit %s" % res["second"]["exit"]]
                if isinstance(probs, dict):
                    chk.harness_error("oracle crashed: %s" % probs.get("error"))
                elif probs:
                    chk.violation("pipeline", {"kind": "reused folder: " + re.sub(r"[0-9]+", "N", probs[0].split(" ", 1)[-1])[:60]},
                                  "%d problems in a folder that holds the unpacked copy of another reference, first: %s" % (len(probs), " || ".join(probs[:3])),
                                  {"engine": "pipeline", "oracle": "module:checks.c18", "kind": "F", "args": a, "hashseed": cell["hashseed"]})
                continue
            if tag[0] == "m":
                if res.get("error"):
                    chk.harness_error("machine: " + res["error"])
                    continue
                chk.evaluations += res["examples"]
                chk.extra["machine_query_sequences"] = chk.extra.get("machine_query_sequences", 0) + res["examples"]
                chk.probes["machine_same_intron_queried_on_opposite_strands"] += res.get("same_intron_opposite_strands", 0)
                for i in range(res["distinct"]):
                    chk.distinct.add("M%d/%d/%d" % (rounds, tag[1], i))
                for s in res.get("samples", [])[:1]:
                    chk.sample({"kind": "query sequence", "case": s}, cap=2)
                for kind, kv in (res.get("known") or {}).items():
                    chk.violation("machine", {"kind": kind}, kv["example"]["text"],
                                  {"engine": "machine:c18", "oracle": "module:checks.c18", "case": kv["example"]["case"], "hashseed": tag[2]})
                if res.get("fail"):
                    f = res["fail"]
                    chk.violation("machine", {"kind": f["problems"][0][0]}, f["problems"][0][1],
                                  {"engine": "machine:c18", "oracle": "module:checks.c18", "case": f["case"], "hashseed": tag[2]})
            else:
                spec, opts, cell, a = jobs[tag[1]]
                chk.count_run(res)
                if res["exit"] != 0:
                    chk.probes["run_failed_exit_%s" % res["exit"]] += 1
                    continue
                chk.evaluations += 1
                chk.distinct.add("P" + json.dumps([rounds, tag[1], cell["hashseed"], res["placement"]]))
                chk.faults["tie_order/placement/hash_seed change"] += 1
                chk.sample({"kind": "pipeline", "workload": spec, "cell": cell}, cap=4)
                probs = (res.get("oracles") or {}).get("canonical")
                if isinstance(probs, dict):
                    chk.harness_error("oracle crashed: %s" % probs.get("error"))
                    continue
                if probs:
                    kind = re.sub(r"\br\d+\w*|\d+|G\d+\.t\d+|transcript\S+", "N", probs[0].split(": ", 1)[-1])[:70]
                    chk.violation("pipeline", {"kind": kind}, " || ".join(probs[:3]),
                                  {"engine": "pipeline", "oracle": "self", "run": {"hashseed": cell["hashseed"], "fn": "scenarios:pipeline", "args": a}})
        if quick or chk.time_left() < 90:
            break


def replay(doc, orch):
    if doc.get("kind") == "F":
        jid = orch.submit(doc.get("hashseed", 0), "scenarios:folder_reuse", doc["args"])
        r = orch.run_all()[jid][1]
        if not r.get("ok"):
            return False, "harness: %s" % r.get("err")
        sec = r["res"].get("second") or {}
        probs = (sec.get("oracles") or {}).get("canonical") or []
        if sec.get("exit") != 0:
            probs = ["exit %s" % sec.get("exit")]
        return bool(probs), "\n".join(str(p) for p in probs[:10])
    jid = orch.submit(doc.get("hashseed", 0), "machines.c18:replay_case", {"case": doc["case"]})
    r = orch.run_all()[jid][1]
    if not r.get("ok"):
        return False, "harness: %s" % r.get("err")
    probs = r["res"]["problems"]
    return bool(probs), "\n".join("%s: %s" % (k, t) for k, t in probs) + "\ncase:\n" + json.dumps(doc["case"])
