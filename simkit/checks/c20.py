"""C20 - concurrent runs under one user account (shared $HOME cache) do not interfere."""
import json
import re

from . import common
from .. import workload

TINY = {"n_chr": 2, "genes_per_chr": 2, "reads_per_iso": 2, "paralogs": 0, "novel": 0, "unmapped": 0, "supplementary": 0,
        "lowmapq": 0, "intergenic": 0, "mono": 0}
POLICIES = ["pct", "starve", "starve", "yield", "yield", "yield", "random", "rr"]


def gen_session(rng, quick):
    """returns (workloads, steps, sched, family)"""
    fam = rng.choice(["same_gtf", "same_gtf", "diff_gtf", "adopt_rebuild", "mixed_flags", "same_basename", "shared_genedb_output",
                      "peer_killed", "deleted_owner", "adopt_replace"])
    n = rng.choice([2, 2, 3] if quick else [2, 2, 3, 4])
    w0 = dict(TINY, seed=rng.randrange(1 << 20))
    w1 = dict(TINY, seed=rng.randrange(1 << 20), genes_per_chr=3)
    workloads = [{"spec": w0}]
    steps = []
    names = "ABCD"

    def opts():
        o = {}
        r = rng.random()
        if r < 0.2:
            o["gtf_repr"] = "gz"
        if rng.random() < 0.2:
            o["complete_genedb"] = True
        return o
    if fam == "same_gtf":
        steps.append({"run": [{"wl": 0, "opts": {}, "out": names[i]} for i in range(n)]})
    elif fam == "diff_gtf":
        workloads.append({"spec": w1})
        steps.append({"run": [{"wl": i % 2, "opts": {}, "out": names[i]} for i in range(n)]})
    elif fam == "same_basename":
        workloads = [{"spec": w0, "same_basename_dir": True}, {"spec": w1, "same_basename_dir": True}]
        steps.append({"run": [{"wl": i % 2, "opts": opts(), "out": names[i]} for i in range(n)]})
    elif fam == "shared_genedb_output":
        # separate -o folders, one --genedb_output folder for the converted databases, annotations with one file name
        workloads = [{"spec": w0, "same_basename_dir": True}, {"spec": w1, "same_basename_dir": True}]
        steps.append({"run": [{"wl": i % 2, "opts": {"extra": ["--genedb_output", "<shared>"]}, "out": names[i]} for i in range(n)]})
    elif fam == "peer_killed":
        # one of the concurrent runs is killed (SIGKILL of that run only) at a seeded shared event; the others must finish
        # with their stand-alone results and the cache must stay well-formed
        if rng.random() < 0.5:
            workloads.append({"spec": w1})
        steps.append({"run": [{"wl": i % len(workloads), "opts": opts(), "out": names[i]} for i in range(max(2, n))],
                      "fault": {"kind": "kill_actor", "index": rng.randrange(4, 110), "phase": rng.choice(["before", "after"])}})
    elif fam == "adopt_replace":
        # an earlier run P registered its conversion of annotation 0; now P's folder is re-used (--force) for annotation 1, which
        # has the same file name, while a peer with annotation 0 looks the cache up and adopts <out_P>/<name>.db
        workloads = [{"spec": w0, "same_basename_dir": True}, {"spec": w1, "same_basename_dir": True}]
        steps.append({"run": [{"wl": 0, "opts": {}, "out": "P"}], "sched": {"policy": "serial", "seed": 0}})
        acts = [{"wl": 1, "opts": {}, "out": "P"}] + [{"wl": 0, "opts": {}, "out": names[i]} for i in range(max(1, n - 1))]
        rng.shuffle(acts)
        st = {"run": acts}
        if rng.random() < 0.6:
            victim = [i for i, x in enumerate(acts) if x["out"] == "P"][0]
            st["sched"] = {"policy": "starve", "seed": rng.randrange(1 << 20), "starve": [victim, 0, rng.choice([22, 30, 44, 60])]}
        steps.append(st)
    elif fam == "deleted_owner":
        # an earlier run registered its conversion in the cache, then its database (the whole result folder, typically) was
        # deleted; the runs that look the annotation up now must convert for themselves
        steps.append({"run": [{"wl": 0, "opts": {}, "out": "P"}], "sched": {"policy": "serial", "seed": 0}})
        steps.append({"op": "delete_db", "out": "P"})
        steps.append({"run": [{"wl": 0, "opts": opts(), "out": names[i]} for i in range(max(2, n - 1))]})
    elif fam == "mixed_flags":
        steps.append({"run": [{"wl": 0, "opts": opts(), "out": names[i]} for i in range(n)]})
    else:
        # an earlier run populated the cache; now its owner rebuilds (clean start) while peers adopt its database
        steps.append({"run": [{"wl": 0, "opts": {}, "out": "P"}], "sched": {"policy": "serial", "seed": 0}})
        acts = [{"wl": 0, "opts": {"clean_start": True}, "out": "P"}]
        acts += [{"wl": 0, "opts": {}, "out": names[i]} for i in range(n - 1)]
        rng.shuffle(acts)
        st = {"run": acts}
        bias = rng.random()
        if bias < 0.45:
            # bias: the rebuilding owner is starved at the start so that peers adopt its database first
            victim = [i for i, x in enumerate(acts) if x["out"] == "P"][0]
            st["sched"] = {"policy": "starve", "seed": rng.randrange(1 << 20),
                           "starve": [victim, 0, rng.choice([22, 26, 30, 36, 44, 60, 90])]}
        elif bias < 0.8:
            # bias: the peers are starved at the start so that they look at the database while the owner is rebuilding it
            peers = [i for i, x in enumerate(acts) if x["out"] != "P"]
            st["sched"] = {"policy": "starve", "seed": rng.randrange(1 << 20),
                           "starve": [peers, 0, rng.choice([7, 8, 10, 12, 16, 20, 26, 34])]}
        steps.append(st)
    sched = {"policy": rng.choice(POLICIES), "seed": rng.randrange(1 << 20), "pct_d": rng.choice([1, 1, 2, 3]),
             "horizon": rng.choice([30, 60, 120])}
    return workloads, steps, sched, fam


def judge(session_res, golden, workloads, steps):
    """returns list of (clause, attrs, text)"""
    out = []
    last = session_res["steps"][-1]
    run_actors = steps[-1]["run"]
    if last.get("harness_error"):
        if str(last["harness_error"]).startswith("livelock"):
            # bounded liveness: every run that is still alive only polls / sleeps and nothing can change for it any more
            import re as _re
            what = _re.sub(r"\.\d+\.", ".<n>.", str(last["harness_error"]))
            return [("a:finish", {"symptom": what[:160]}, "runs never finish: %s" % last["harness_error"])]
        return [("harness", {}, last["harness_error"])]
    for a, ar in zip(run_actors, last["actors"]):
        key = json.dumps([a["wl"], a.get("opts") or {}], sort_keys=True)
        if ar["exit"] == "killed":
            continue        # the injected fault: this run is not judged, its peers are
        if ar["exit"] != 0:
            out.append(("a:exit0", {"out": a["out"], "symptom": "exit%s:%s" % (ar["exit"], ar.get("failure_site")),
                                    "clean_start": bool((a.get("opts") or {}).get("clean_start")),
                                    "adopted_modified": bool(ar.get("adopted_modified")),
                                    "foreign_db_exists_checked": bool(ar.get("foreign_db_exists_checked"))},
                        "actor %s exits %s: %s\n%s" % (a["out"], ar["exit"], ar.get("failure_site"), (ar.get("log_tail") or "")[-400:])))
            continue
        g = golden.get(key)
        if g is not None and g["exit"] == 0:
            bad = sorted(k for k in set(g["digests"]) | set(ar["digests"]) if g["digests"].get(k) != ar["digests"].get(k))
            if bad:
                out.append(("b:alone", {"out": a["out"], "symptom": "differs:" + ",".join(sorted(set(common.file_class(b) for b in bad)))},
                            "actor %s: outputs differ from the run alone: %s" % (a["out"], bad[:6])))
        if ar.get("db_digest") and ar.get("fresh_digest") and ar["db_digest"] != ar["fresh_digest"]:
            out.append(("d:own_db", {"out": a["out"], "symptom": "db %s vs fresh %s" % (ar["db_digest"].split(":")[0], ar["fresh_digest"].split(":")[0]),
                                     "foreign": ar.get("db_foreign")},
                        "actor %s used database %s whose content (%s) is not a conversion of its own annotation (%s)" % (
                            a["out"], ar.get("db_used"), ar["db_digest"], ar["fresh_digest"])))
    if last.get("cache_malformed"):
        out.append(("e:cache", {"symptom": ",".join(last["cache_malformed"])}, "cache files malformed at the end: %s" % last["cache_malformed"]))
    return out


def run(chk, orch):
    quick = chk.tier == "quick"
    chk.rule = ("each evaluation = one simulated session of 2-4 complete IsoQuant invocations (--threads 1, tiny workloads, own "
                "output folders, one HOME) started together and interleaved by the seeded scheduler at every event on a shared "
                "path (exists/open-r/open-w(truncate)/write(flush)/getmtime/makedirs on $HOME/.config/IsoQuant, sqlite connect/"
                "commit on every *.db), optionally after a sequential pre-history; judged per actor: exit 0, outputs equal to the "
                "same invocation alone with an empty HOME, the database used is a conversion of its own annotation, cache files "
                "well-formed at the end. distinct = distinct sha256 of the shared-event trace; all sessions are non-trivial "
                "(>= 2 concurrent actors)")
    chk.assumptions = ["between shared events an actor touches only its own folder, so the interleaving of shared events is the schedule",
                       "mtimes are logical (change iff the file was modified); sqlite commits and gffutils.create_db steps are "
                       "atomic events", "lost cache updates are not violations (the property does not promise completeness)",
                       "the reference .fai exists before the actors start, except in the family fresh_reference, where the index "
                       "file is a shared path (open/truncate, write, read, rename are events)"]
    rounds = 0
    while True:
        rounds += 1
        n = 96 if quick else 192
        sessions = {}
        gold_keys = {}
        for k in range(n):
            wls, steps, sched, fam = gen_session(chk.rng, quick)
            a = {"workloads": wls, "steps": steps, "sched": sched}
            orch.submit(0, "scenarios:cache_session", a, tag=("s", k), timeout=120)
            sessions[k] = (wls, steps, sched, fam, a)
            for act in steps[-1]["run"]:
                key = json.dumps([act["wl"], act.get("opts") or {}], sort_keys=True)
                gk = json.dumps([wls[act["wl"]]["spec"], act.get("opts") or {}], sort_keys=True)
                if gk not in gold_keys:
                    o = dict(act.get("opts") or {})
                    o.pop("clean_start", None)
                    orch.submit(0, "scenarios:pipeline", common.job_args(wls[act["wl"]]["spec"], o, common.GOLDEN_CELL),
                                tag=("g", gk))
                    gold_keys[gk] = None
        # first use of a reference: 2-4 runs start together on a reference that has no .fai yet; the index next to the shared
        # reference is a shared path in these sessions (own seeded stream, so that the other families keep their draws)
        import random as _random
        frng = _random.Random("c20/fresh_reference/%d/%d" % (chk.seed, rounds))
        for k in range(n, n + (24 if quick else 64)):
            w0 = dict(TINY, seed=frng.randrange(1 << 20))
            nn = frng.choice([2, 3, 4])
            steps = [{"run": [{"wl": 0, "opts": {}, "out": "ABCD"[i]} for i in range(nn)]}]
            sched = {"policy": frng.choice(POLICIES), "seed": frng.randrange(1 << 20), "pct_d": frng.choice([1, 1, 2, 3]),
                     "horizon": frng.choice([30, 60, 120])}
            wls = [{"spec": w0}]
            a = {"workloads": wls, "steps": steps, "sched": sched, "cold_fai": True}
            orch.submit(0, "scenarios:cache_session", a, tag=("s", k), timeout=120)
            sessions[k] = (wls, steps, sched, "fresh_reference", a)
            gk = json.dumps([w0, {}], sort_keys=True)
            if gk not in gold_keys:
                orch.submit(0, "scenarios:pipeline", common.job_args(w0, {}, common.GOLDEN_CELL), tag=("g", gk))
                gold_keys[gk] = None
        # the same annotation, which lacks the gene/transcript records of some genes, converted WITH and WITHOUT --complete_genedb by
        # runs that start together: whoever registers first must not decide for the other (own seeded stream)
        for k in range(n + 100, n + 100 + (8 if quick else 24)):
            w0 = dict(TINY, seed=frng.randrange(1 << 20), gtf_meta=2, genes_per_chr=3)
            acts = [{"wl": 0, "opts": {"complete_genedb": True}, "out": "A"}, {"wl": 0, "opts": {}, "out": "B"}]
            if k % 2:
                acts.reverse()
            if k % 4 >= 2:
                acts.append({"wl": 0, "opts": {"complete_genedb": bool(k % 8 >= 4)}, "out": "C"})
            steps = [{"run": acts}]
            sched = {"policy": frng.choice(POLICIES), "seed": frng.randrange(1 << 20), "pct_d": frng.choice([1, 1, 2, 3]),
                     "horizon": frng.choice([30, 60, 120])}
            wls = [{"spec": w0}]
            a = {"workloads": wls, "steps": steps, "sched": sched}
            orch.submit(0, "scenarios:cache_session", a, tag=("s", k), timeout=120)
            sessions[k] = (wls, steps, sched, "mixed_complete", a)
            for act in acts:
                gk = json.dumps([w0, act.get("opts") or {}], sort_keys=True)
                if gk not in gold_keys:
                    orch.submit(0, "scenarios:pipeline", common.job_args(w0, dict(act.get("opts") or {}), common.GOLDEN_CELL), tag=("g", gk))
                    gold_keys[gk] = None
        # second system: the index / BED / alignment caches of the aligner path, driven function by function with stub artefacts
        nk = 64 if quick else 256
        cfn = {}
        for k in range(nk):
            na = chk.rng.choice([2, 2, 3, 4, 6, 8])
            personas = [{"ref": chk.rng.choice([0, 0, 1, 2]), "data_type": chk.rng.choice(["nanopore", "nanopore", "pacbio_ccs", "assembly"]),
                         "genedb": chk.rng.choice([0, 0, 1]), "fastqs": chk.rng.sample(range(4), chk.rng.choice([1, 2])),
                         "db2gtf": chk.rng.random() < 0.5} for _ in range(na)]
            sched = {"policy": chk.rng.choice(POLICIES), "seed": chk.rng.randrange(1 << 20), "pct_d": chk.rng.choice([1, 2, 3]),
                     "horizon": chk.rng.choice([40, 80, 160])}
            a = {"personas": personas, "sched": sched}
            if chk.rng.random() < 0.3:
                # inputs delivered with identical whole-second time stamps (unpacked archive, cp -p)
                a["same_mtime"] = ["gdb", "ref", "fq"]
            orch.submit(0, "scenarios:cache_functions", a, tag=("k", k), timeout=120)
            cfn[k] = a
        results = {}
        kres = {}
        for jid, tag, r in orch.results():
            if r.get("ok") and tag[0] == "k":
                kres[tag[1]] = r["res"]
                continue
            if not r.get("ok"):
                chk.harness_error(r.get("err"))
                continue
            if tag[0] == "g":
                gold_keys[tag[1]] = r["res"]
                chk.count_run(r["res"])
            else:
                results[tag[1]] = r["res"]
        for k, res in sorted(kres.items()):
            a = cfn[k]
            chk.runs += 1
            chk.events_simulated += res.get("events", 0)
            chk.evaluations += 1
            chk.distinct.add(res["trace_sha"])
            chk.interleavings.add(res["trace_sha"])
            chk.faults["concurrent_peer"] += len(a["personas"]) - 1
            chk.probes["family_cache_functions"] += 1
            if res.get("harness_error"):
                chk.harness_error(res["harness_error"])
                continue
            probs = [p for ps in res["actors"] for p in ps]
            if res.get("cache_malformed"):
                probs.append("cache files malformed at the end: %s" % res["cache_malformed"])
            if probs:
                kind = "actor raised" if any("actor raised" in p or "no result" in p for p in probs) else \
                    ("malformed" if "malformed" in probs[-1] else "foreign artefact")
                m = re.findall(r"(\w+Error)", " ".join(probs))
                chk.violation("k:cachefn", {"family": "cache_functions", "kind": kind, "error": m[-1] if m else ""},
                              " || ".join(p[-300:] for p in probs[:3]),
                              {"engine": "actors", "oracle": "module:checks.c20", "kind": "K", "args": dict(a, sched={"picks": res.get("picks")}),
                               "expected": {"trace_sha256": res["trace_sha"]}})
        for k, res in sorted(results.items()):
            wls, steps, sched, fam, a = sessions[k]
            chk.runs += 1
            chk.events_simulated += res.get("events", 0)
            chk.interleavings.add(res["trace_sha"])
            chk.evaluations += 1
            chk.distinct.add(res["trace_sha"])
            chk.faults["concurrent_peer"] += len(steps[-1]["run"]) - 1
            for kl in res["steps"][-1].get("killed") or []:
                chk.faults["peer_killed/" + kl[2]] += 1
            if fam == "adopt_rebuild":
                chk.faults["stale_or_rebuilt_foreign_cache_state"] += 1
            for pk, pv in (res.get("probes") or {}).items():
                chk.probes[pk] += pv
            chk.probes["family_" + fam] += 1
            chk.sample({"family": fam, "actors": steps[-1]["run"], "sched": sched, "workloads": [w["spec"]["seed"] for w in wls]}, cap=5)
            golden = {}
            for act in steps[-1]["run"]:
                o = dict(act.get("opts") or {})
                gk = json.dumps([wls[act["wl"]]["spec"], act.get("opts") or {}], sort_keys=True)
                golden[json.dumps([act["wl"], act.get("opts") or {}], sort_keys=True)] = gold_keys.get(gk)
            for ar in res["steps"][-1].get("actors", []):
                if ar.get("db_foreign"):
                    chk.probes["actor_used_db_in_peer_folder"] += 1
            for clause, attrs, text in judge(res, golden, wls, steps):
                if clause == "harness":
                    chk.harness_error(text)
                    continue
                attrs["family"] = fam
                chk.violation(clause, attrs, text, {
                    "engine": "actors", "oracle": "module:checks.c20", "session": a,
                    "picks": res.get("picks"), "expected": {"trace_sha256": res["trace_sha"], "text": text[:300]}})
        if quick or chk.time_left() < 60:
            break


def replay(doc, orch):
    if doc.get("kind") == "K":
        jid = orch.submit(0, "scenarios:cache_functions", doc["args"], timeout=120)
        r = orch.run_all()[jid][1]
        if not r.get("ok"):
            return False, "harness: %s" % r.get("err")
        probs = [p for ps in r["res"]["actors"] for p in ps] + (["malformed: %s" % r["res"]["cache_malformed"]] if r["res"].get("cache_malformed") else [])
        return bool(probs), "trace sha256 recorded %s replayed %s\n%s" % (
            str((doc.get("expected") or {}).get("trace_sha256"))[:16], r["res"]["trace_sha"][:16], "\n".join(probs))
    a = dict(doc["session"])
    # replay the recorded picks (pure function of the decision list)
    steps = []
    for st, picks in zip(a["steps"], (doc.get("picks") or []) + [None] * len(a["steps"])):
        st = dict(st)
        if "run" in st and picks is not None:
            st["sched"] = {"picks": picks}
        steps.append(st)
    # picks are recorded per run step only
    ri = 0
    steps = []
    for st in a["steps"]:
        st = dict(st)
        if "run" in st:
            pk = (doc.get("picks") or [])
            if ri < len(pk):
                st["sched"] = {"picks": pk[ri]}
            ri += 1
        steps.append(st)
    a["steps"] = steps
    sid = orch.submit(0, "scenarios:cache_session", a, timeout=120)
    gids = {}
    for act in a["steps"][-1]["run"]:
        o = dict(act.get("opts") or {})
        o.pop("clean_start", None)
        key = json.dumps([act["wl"], act.get("opts") or {}], sort_keys=True)
        gids[key] = orch.submit(0, "scenarios:pipeline", common.job_args(a["workloads"][act["wl"]]["spec"], o, common.GOLDEN_CELL))
    out = orch.run_all()
    res = out[sid][1]
    if not res.get("ok"):
        return False, "harness: %s" % res.get("err")
    golden = {k: out[j][1]["res"] for k, j in gids.items()}
    v = judge(res["res"], golden, a["workloads"], a["steps"])
    exp = (doc.get("expected") or {}).get("trace_sha256")
    txt = "trace sha256 recorded %s replayed %s\n" % (str(exp)[:16], res["res"]["trace_sha"][:16])
    return bool(v), txt + "\n".join(t for _, _, t in v)


def minimise_doc(doc, orch, max_evals=40):
    if doc.get("kind") == "K":
        return doc, {"minimised": False, "reason": "function-level sessions are already small (2-8 actors, ~50 events each)"}
    """session-level minimisation: fewer actors, then a shorter recorded schedule (picks beyond a prefix fall back to
    'lowest slot first'), keeping a step only while the same clause and symptom reproduce"""
    import copy

    def reproduces(d):
        ok, txt = replay(d, orch)
        return ok and (doc["attrs"].get("symptom", "").split("@")[0].split(":")[-1] in txt or not doc["attrs"].get("symptom"))
    evals = 1
    if not reproduces(doc):
        return doc, {"minimised": False, "reason": "did not reproduce on re-execution", "evals": evals}
    steps = []
    cur = copy.deepcopy(doc)
    # 1. drop actors of the last (concurrent) step
    progress = True
    while progress and evals < max_evals:
        progress = False
        acts = cur["session"]["steps"][-1]["run"]
        if len(acts) <= 2:
            break
        for i in range(len(acts)):
            cand = copy.deepcopy(cur)
            del cand["session"]["steps"][-1]["run"][i]
            cand["picks"] = None      # the recorded schedule no longer applies: fall back to the generating policy
            evals += 1
            if reproduces(cand):
                cur = cand
                steps.append("drop actor %d" % i)
                progress = True
                break
    # 2. shorten the recorded schedule of the last step
    if cur.get("picks"):
        pk = cur["picks"][-1]
        n = len(pk)
        keep = n
        while keep > 1 and evals < max_evals:
            half = keep // 2
            cand = copy.deepcopy(cur)
            cand["picks"][-1] = pk[:half]
            evals += 1
            if reproduces(cand):
                keep = half
                cur = cand
                pk = cand["picks"][-1]
                steps.append("schedule prefix %d" % half)
            else:
                break
    return cur, {"minimised": True, "steps": steps, "evals": evals}
