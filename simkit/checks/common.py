"""Shared sweep generation for the pipeline-level checks."""
import json
import re

from .. import workload

POLICIES = ["random", "serial", "rr", "pct", "spread", "pile", "placed", "placed", "placed"]
THREADS = [1, 2, 3, 4, 8, 16]
BUFS = [8192, 8192, 64, 256, 1024]


def wl_id(spec, opts):
    return json.dumps([spec, opts], sort_keys=True)


def base_workloads(tier, rng, n_random=0, profile="small"):
    """a few fixed, feature-rich workloads + seeded random ones"""
    wls = [
        ({"seed": 11, "n_chr": 3, "groups": 3, "paralogs": 1, "novel": 2, "antisense": 1, "readthrough": 2, "intergenic_multi": 2,
          "long_locus": 1, "ambig_multi": 4, "twin_chr": 2, "novel_locus": 1},
         {"read_group": "tag", "count_exons": True}),
        ({"seed": 12, "n_chr": 4, "groups": 12, "group_missing": 5, "paralogs": 2, "novel": 2, "n_bams": 2,
          "dup_records": 1, "equal_len": 1, "pre_ids": 2, "novel_gene_overlap": 1, "novel_cov": 6, "ambig_multi": 3},
         {"read_group": "read_id", "check_canonical": True, "count_exons": True}),
        ({"seed": 13, "n_chr": 3, "n_exp": 2, "exp_mode": "split", "paralogs": 1, "novel": 1},
         {"sqanti_output": True}),
    ]
    if tier == "quick":
        wls = wls[:3]
    for i in range(n_random):
        spec = workload.random_spec(rng, profile)
        opts = random_opts(rng, spec)
        wls.append((spec, opts))
    return wls


def random_opts(rng, spec):
    o = {}
    if rng.random() < 0.6:
        ng = rng.choice([2, 3, 5, 12])
        spec["groups"] = ng
        spec["group_missing"] = rng.choice([0, 0, 4])
        o["read_group"] = rng.choice(["tag", "read_id", "file"])
        o["counts_format"] = rng.choice([None, "matrix", "linear", "both"])
    if rng.random() < 0.3:
        spec["n_bams"] = rng.choice([2, 3])
        if "read_group" not in o and rng.random() < 0.5:
            o["read_group"] = "file_name"
    if rng.random() < 0.25:
        spec["n_exp"] = 2
        spec["exp_mode"] = rng.choice(["same", "split"])
    o["data_type"] = rng.choice(["nanopore", "nanopore", "pacbio_ccs", "assembly"])
    for k, p in (("check_canonical", 0.3), ("count_exons", 0.3), ("sqanti_output", 0.2), ("no_gzip", 0.2)):
        if rng.random() < p:
            o[k] = True
    if rng.random() < 0.1:
        o["ref_gz"] = True
    if rng.random() < 0.15:
        o["annotated"] = False
        o.pop("sqanti_output", None)
    if rng.random() < 0.3:
        o["transcript_quant"] = rng.choice(["unique_only", "with_ambiguous", "unique_splicing_consistent",
                                            "unique_inconsistent", "all"])
        o["gene_quant"] = rng.choice(["unique_only", "with_ambiguous", "unique_splicing_consistent",
                                      "unique_inconsistent", "all"])
    if rng.random() < 0.2:
        o["model_strategy"] = rng.choice(["reliable", "sensitive_pacbio", "sensitive_ont", "all", "fl_pacbio"])
    if rng.random() < 0.3:
        # further documented algorithm settings (they change what is computed, never what the properties demand)
        o["extra"] = rng.choice([["--fl_data"], ["--stranded", "forward"], ["--stranded", "reverse"],
                                 ["--matching_strategy", "exact"], ["--matching_strategy", "loose"],
                                 ["--splice_correction_strategy", "none"], ["--splice_correction_strategy", "all"],
                                 ["--report_novel_unspliced", "true"], ["--delta", "3"], ["--no_secondary"],
                                 ["--polya_requirement", "never"], ["--polya_requirement", "always"]])
    return o


def random_cell(rng, allow_mem=True):
    """one execution configuration: hashseed, threads, policy, memory mode, keep_tmp, buffer size"""
    w = rng.choice(THREADS)
    return {
        "hashseed": rng.choice([0, 1, 2, 3, 4, 5, 6, 7]),
        "threads": w,
        "sched": {"policy": rng.choice(POLICIES), "seed": rng.randrange(1 << 20)},
        "high_memory": allow_mem and rng.random() < 0.4,
        "keep_tmp": rng.random() < 0.25,
        "bufsize": rng.choice(BUFS),
    }


def structured_cells(hashseeds=(0, 1, 2, 3, 4, 5, 6, 7), threads=(1, 2, 3, 16)):
    """one-factor-at-a-time around the golden configuration, then a few combinations"""
    cells = []
    g = {"hashseed": 0, "threads": 1, "sched": {"policy": "serial", "seed": 0}, "high_memory": False,
         "keep_tmp": False, "bufsize": 8192}
    cells.append(dict(g, note="repeat"))
    for h in hashseeds[1:]:
        cells.append(dict(g, hashseed=h, note="hashseed"))
    for w in threads[1:]:
        for pol in ("serial", "spread", "random"):
            cells.append(dict(g, threads=w, sched={"policy": pol, "seed": w}, note="threads"))
    for sd in (11, 12, 13, 14, 15, 16):
        cells.append(dict(g, threads=2 + sd % 2, sched={"policy": "placed", "seed": sd}, note="threads"))
    cells.append(dict(g, threads=2, sched={"policy": "rr", "seed": 1}, note="threads"))
    cells.append(dict(g, high_memory=True, note="high_memory"))
    cells.append(dict(g, high_memory=True, threads=2, sched={"policy": "spread", "seed": 2}, note="high_memory"))
    cells.append(dict(g, keep_tmp=True, note="keep_tmp"))
    cells.append(dict(g, rerun=True, note="rerun"))
    cells.append(dict(g, rerun=True, keep_tmp=True, threads=2, sched={"policy": "spread", "seed": 3}, note="rerun"))
    cells.append(dict(g, bufsize=64, note="bufsize"))
    cells.append(dict(g, hashseed=hashseeds[-1], threads=3, high_memory=True, sched={"policy": "pct", "seed": 5},
                      note="combo"))
    cells.append(dict(g, hashseed=hashseeds[1], threads=2, keep_tmp=True, sched={"policy": "pile", "seed": 6},
                      bufsize=64, note="combo"))
    return cells


GOLDEN_CELL = {"hashseed": 0, "threads": 1, "sched": {"policy": "serial", "seed": 0}, "high_memory": False,
               "keep_tmp": False, "bufsize": 8192}


def cell_opts(opts, cell):
    o = dict(opts)
    o["threads"] = cell["threads"]
    o["high_memory"] = cell.get("high_memory", False)
    o["keep_tmp"] = cell.get("keep_tmp", False)
    return o


def job_args(spec, opts, cell, **kw):
    a = {"spec": spec, "opts": cell_opts(opts, cell), "sched": cell["sched"], "bufsize": cell.get("bufsize", 8192)}
    if cell.get("rerun"):
        a["rerun"] = True
    if cell.get("pre"):
        a["pre"] = cell["pre"]
    a.update(kw)
    return a


_chr_rx = re.compile(r"(?<![A-Za-z0-9])(chr[0-9XM]+)(?![A-Za-z0-9])")


def file_class(name):
    """'E0/E0.gene_counts.tsv' -> '<prefix>.gene_counts.tsv'"""
    base = name.split("/")[-1]
    parts = base.split(".", 1)
    if len(parts) == 2 and not base.startswith("combined_"):
        return "<prefix>." + parts[1]
    return base
