"""Layer M shared by C02 and C09: the counter machine (machines/c09.py)."""
import json

MACHINE_RULE = ("two layers. (M) machine: a seeded sequence of counting operations (assignment type x features of one locus x group x "
                "confirming or not; unassigned and unaligned reads) is dealt, locus by locus, onto 1-4 chromosomes and pushed through "
                "the real per-chromosome AssignedFeatureCounter -> dump -> merge_counts -> convert_counts_to_tpm hand-over, with and "
                "without read groups, for every strategy and grouped format; the merged tables must carry the documented weighting "
                "(0 or the exact sum, the sum for confirmed features), identical matrix/linear triples, group sums equal to the "
                "ungrouped values, exact __ambiguous/__no_feature/__not_aligned lines, one header, TPM = rescaled counts, and the same "
                "rows as the single-chromosome run; one evaluation = one operation sequence. (P) pipeline: ")


def run_machine(chk, orch, seed_offset, module):
    quick = chk.tier == "quick"
    nm = 4 if quick else 16
    for k in range(nm):
        orch.submit(k % 2, "machines.c09:run", {"seed": chk.seed * 1000 + seed_offset + k, "max_examples": 120 if quick else 1200},
                    tag=("m", k, k % 2), timeout=900)
    for jid, tag, r in orch.results():
        if not r.get("ok"):
            chk.harness_error(r.get("err"))
            continue
        res = r["res"]
        if res.get("error"):
            chk.harness_error("machine: " + res["error"])
            continue
        chk.evaluations += res["examples"]
        chk.extra["counter_machine_cases"] = chk.extra.get("counter_machine_cases", 0) + res["examples"]
        chk.probes["machine_case_with_read_groups"] += res.get("cases_with_read_groups", 0)
        chk.probes["machine_case_dealt_onto_several_chromosomes"] += res.get("cases_dealt_onto_several_chromosomes", 0)
        for i in range(res["distinct"]):
            chk.distinct.add("M%d/%d" % (tag[1], i))
        for s_ in res.get("samples", [])[:1]:
            chk.sample({"kind": "counting operations (counter machine)", "case": s_}, cap=2)
        if res.get("fail"):
            f = res["fail"]
            chk.violation("machine", {"kind": f["problems"][0][0]}, f["problems"][0][1],
                          {"engine": "machine:c09", "oracle": "module:checks.%s" % module, "kind": "M", "case": f["case"],
                           "hashseed": tag[2]})


def replay(doc, orch):
    jid = orch.submit(doc.get("hashseed", 0), "machines.c09:replay_case", {"case": doc["case"]})
    r = orch.run_all()[jid][1]
    if not r.get("ok"):
        return False, "harness: %s" % r.get("err")
    probs = r["res"]["problems"]
    return bool(probs), "\n".join("%s: %s" % (k, t) for k, t in probs) + "\ncase: " + json.dumps(doc["case"])
