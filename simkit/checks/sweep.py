"""Generic sweep for the self-consistency properties (C02, C03, C05, C09, C17): the same kinds of executions as the core
checks (fault-free under any cell; multi-experiment histories; crash + resume), each judged by the property's own oracle."""
import json

from . import common


def run_sweep(chk, orch, oracle, make_wl, n_quick=10, n_round=32, crash_share=0.25, what="", attr_fn=None):
    quick = chk.tier == "quick"
    chk.rule = ("each evaluation = one complete simulated IsoQuant execution (seeded workload x cell: hash seed, --threads, "
                "schedule policy, memory mode, keep_tmp, buffer size; a share of them killed at a seeded event and resumed) "
                "whose final outputs are judged by the %s oracle (%s); distinct = distinct (workload, options, hash seed, "
                "memory mode, placement, crash label); non-trivial = pool used, or hash seed/memory mode differ from the "
                "defaults, or a crash was injected, or several experiments") % (oracle, what)
    chk.assumptions = ["the oracle re-derives its expectation from the generator's ground truth and from the other output "
                       "files with independent parsers", "input space is sampled by the workload generator, not enumerated"]
    rounds = 0
    while True:
        rounds += 1
        n = n_quick if quick else n_round
        jobs = {}
        two_phase = {}
        for k in range(n):
            spec, opts = make_wl(chk.rng, k if rounds == 1 else None)
            cell = common.random_cell(chk.rng) if (k > 0 or rounds > 1) else dict(common.GOLDEN_CELL)
            # a workload may pin parts of its cell (e.g. the memory mode its structure is aimed at)
            cell.update(opts.pop("force_cell", None) or {})
            forced = opts.pop("force_fault", None)
            no_fault = opts.pop("no_fault", False)      # a workload aimed at in-process state: never killed (the draw below still happens)
            pre = opts.pop("pre", None)
            a = common.job_args(spec, opts, cell, oracles=[oracle])
            if pre:
                # history of the output folder: an earlier run (other data; complete, --keep_tmp or killed) worked there
                a["pre"] = pre
                chk.faults["output_folder_with_the_leftovers_of_an_earlier_run"] += 1
            fn = "scenarios:pipeline"
            if forced:
                # a workload may also pin its fault (a kill at a stage-relative point its structure is aimed at)
                fn = "scenarios:crash_resume"
                a["fault"] = dict(forced)
                a["resume"] = dict(a["fault"].pop("resume", None) or {})
            elif chk.rng.random() < crash_share:
                fn = "scenarios:crash_resume"
                if chk.rng.random() < 0.5:
                    a["fault"] = {"kind": "kill", "index": 12 + chk.rng.randrange(260), "phase": chk.rng.choice(["before", "after"])}
                else:
                    # stage-relative kill (located with a fault-free probe run of the same job)
                    a["fault"] = {"kind": "kill", "stage": chk.rng.choice(["collect", "resolve", "construct", "construct", "merge", "merge", "cleanup"]),
                                  "frac": round(chk.rng.random(), 3), "phase": chk.rng.choice(["before", "after"])}
                if no_fault:
                    # the draws above were made (the seeded stream of the other jobs stays what it was), the fault is not used
                    fn = "scenarios:pipeline"
                    a.pop("fault", None)
                # every fourth injected termination is a SIGINT to the top-level process instead of a SIGKILL of the tree: the
                # stack unwinds (finally blocks, destructors, exit handlers run) - derived from numbers already drawn
                if not no_fault:
                    if int(a["fault"].get("index", int(a["fault"].get("frac", 0) * 1000))) % 4 == 0:
                        a["fault"]["kind"] = "interrupt"
                        a["fault"]["phase"] = "before"
                    a["resume"] = {}
            if forced and forced.get("resume_hashseed") is not None:
                # the killed run and the resumed run are different processes with different string hash seeds: first half
                # here, second half (below) by the fork server of the other seed, on the same run directory
                a["fault"].pop("resume_hashseed", None)
                a["phase"] = "crash"
                two_phase[k] = forced["resume_hashseed"]
            jid = orch.submit(cell["hashseed"], fn, a, tag=k)
            jobs[k] = (spec, opts, cell, fn, a)
        collected = list(orch.results())
        resubmitted = set()
        for jid, k, r in collected:
            if k in two_phase and r.get("ok") and r["res"].get("rundir"):
                spec, opts, cell, fn, a = jobs[k]
                a2 = dict(a, phase="resume", rundir=r["res"]["rundir"], resume_hashseed=two_phase[k])
                jobs[k] = (spec, opts, cell, fn, a2)
                orch.submit(two_phase[k], fn, a2, tag=k)
                resubmitted.add(k)
                chk.faults["resume_under_another_hash_seed"] += 1
        if resubmitted:
            collected = [c for c in collected if c[1] not in resubmitted] + list(orch.results())
        for jid, k, r in collected:
            spec, opts, cell, fn, a = jobs[k]
            if not r.get("ok"):
                chk.harness_error(r.get("err"))
                continue
            res = r["res"]
            import os as _os, sys as _sys
            if _os.environ.get("VERIF_DEBUG_SWEEP"):
                _sys.stderr.write("SWEEP k=%s exit=%s rg=%s nexp=%s thr=%s site=%s\n" % (k, res.get("exit"), opts.get("read_group"), spec.get("n_exp"), cell.get("threads"), res.get("failure_site")))
            chk.count_run(res)
            crashed = fn.endswith("crash_resume") and not res.get("no_crash")
            if crashed:
                if a["fault"].get("kind") == "interrupt":
                    chk.faults["sigint(KeyboardInterrupt at the event, stack unwinds)"] += 1
                else:
                    chk.faults["kill-tree/" + a["fault"]["phase"]] += 1
                if a["fault"].get("stage"):
                    chk.probes["stage_relative_kill_in_" + a["fault"]["stage"]] += 1
            if cell["hashseed"]:
                chk.faults["hash_seed_change"] += 1
            if cell.get("high_memory"):
                chk.faults["memory_mode_change"] += 1
            if cell["threads"] > 1:
                chk.faults["worker_placement"] += 1
            if res.get("harness_error"):
                chk.harness_error(res["harness_error"])
                continue
            if res["exit"] != 0:
                # a failing run is judged by the property only if the property speaks about failing (C09 does)
                chk.probes["run_failed_exit_%s" % res["exit"]] += 1
                if attr_fn is None or not getattr(attr_fn, "judge_failures", False):
                    if crashed:
                        continue   # resume failures belong to C07
                    chk.extra.setdefault("failed_runs", [])
                    if len(chk.extra["failed_runs"]) < 3:
                        chk.extra["failed_runs"].append({"spec": spec, "opts": opts, "log": (res.get("log_tail") or "")[-300:]})
                    continue
            chk.evaluations += 1
            nontrivial = bool(res["pool_maps"]) or cell["hashseed"] != 0 or cell.get("high_memory") or crashed or spec.get("n_exp", 1) > 1
            if nontrivial:
                chk.distinct.add(json.dumps([spec, opts, cell["hashseed"], cell.get("high_memory"), res["placement"],
                                             res.get("crash", {}).get("label")], sort_keys=True))
            chk.sample({"workload": spec, "opts": opts, "cell": cell, "crashed_and_resumed": crashed,
                        "placement": res["placement"]}, cap=5)
            probs = (res.get("oracles") or {}).get(oracle)
            if res["exit"] != 0:
                probs = ["run failed with exit %s: %s" % (res["exit"], res.get("failure_site"))]
            if isinstance(probs, dict):
                chk.harness_error("oracle crashed: %s" % probs.get("error"))
                continue
            if not probs:
                continue
            attrs = attr_fn(probs, spec, opts, cell, res) if attr_fn else {"first": probs[0][:80]}
            attrs.setdefault("crashed", crashed)
            chk.violation("oracle", attrs, "%d problems, first: %s" % (len(probs), " || ".join(probs[:4])), {
                "engine": "pipeline", "oracle": "self", "run": {"hashseed": cell["hashseed"], "fn": fn, "args": a},
                "expected": {"problems": probs[:10], "trace_sha256": res.get("trace_sha")}})
        if quick or chk.time_left() < 60:
            break
