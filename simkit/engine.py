"""The hub: seeded scheduler + fault injector that owns every actor of one simulated execution."""
import ctypes
import json
import os
import re
import select
import signal
import socket
import sys
import time as _time

from . import seams

NSLOTS = 17   # main + up to 16 workers


class HarnessError(Exception):
    pass


def become_subreaper():
    try:
        ctypes.CDLL(None, use_errno=True).prctl(36, 1, 0, 0, 0)
    except Exception:
        pass


def reap():
    try:
        while True:
            pid, _ = os.waitpid(-1, os.WNOHANG)
            if pid == 0:
                break
    except ChildProcessError:
        pass


# ---------------------------------------------------------------------------- choosers
class Chooser:
    """decides which enabled move runs next.  Records picks (index into the canonical move list)."""

    def __init__(self):
        self.picks = []

    def pick(self, hub, moves):
        raise NotImplementedError

    def choose(self, hub, moves):
        if len(moves) == 1:
            return 0
        i = self.pick(hub, moves)
        self.picks.append(i)
        return i

    def perm(self, n):
        return list(range(n))


class ReplayChooser(Chooser):
    def __init__(self, picks, perms=None):
        super().__init__()
        self.src = list(picks)
        self.pos = 0
        self.perms_src = [list(p) for p in (perms or [])]
        self.ppos = 0
        self.perms = []

    def pick(self, hub, moves):
        v = self.src[self.pos] if self.pos < len(self.src) else 0
        self.pos += 1
        return v if 0 <= v < len(moves) else 0

    def perm(self, n):
        p = self.perms_src[self.ppos] if self.ppos < len(self.perms_src) else list(range(n))
        self.ppos += 1
        if sorted(p) != list(range(n)):
            p = list(range(n))
        self.perms.append(p)
        return p


class PolicyChooser(Chooser):
    """seeded policies.  policy in: random, serial (run one actor to completion, lowest slot first),
    rr (round robin), pct (strict priorities + d change points), spread (one task per worker first),
    pile (all tasks on one worker)"""

    def __init__(self, rng, policy="random", pct_d=2, horizon=400, starve=None):
        super().__init__()
        if starve:
            self._sv = tuple(starve)
            self._sv_fixed = True
        self.rng = rng
        self.policy = policy
        self.perms = []
        self.prio = {}
        self.change = sorted(rng.randrange(horizon) for _ in range(pct_d)) if policy == "pct" else []
        self.steps = 0
        self.last = None

    def _prio(self, slot):
        if slot not in self.prio:
            self.prio[slot] = self.rng.random() + 1.0
        return self.prio[slot]

    def pick(self, hub, moves):
        self.steps += 1
        p = self.policy
        if p == "random":
            return self.rng.randrange(len(moves))
        if p == "serial":
            # continue the last actor if possible, else lowest slot; dispatch only when nothing else can run
            runs = [i for i, m in enumerate(moves) if m[0] == "run"]
            for i in runs:
                if moves[i][1] == self.last:
                    return i
            if runs:
                self.last = moves[runs[0]][1]
                return runs[0]
            self.last = moves[0][1]
            return 0
        if p == "pile":
            # never start a second worker while the first can take the task
            tasks = [i for i, m in enumerate(moves) if m[0] == "task" and hub.actors[m[1]].tasks_run > 0]
            if tasks:
                return tasks[0]
            runs = [i for i, m in enumerate(moves) if m[0] == "run"]
            if runs:
                return runs[self.rng.randrange(len(runs))]
            return 0
        if p == "spread":
            tasks = [i for i, m in enumerate(moves) if m[0] == "task" and hub.actors[m[1]].tasks_run == 0]
            if tasks:
                return tasks[0]
            return self.rng.randrange(len(moves))
        if p == "rr":
            slots = sorted(set(m[1] for m in moves))
            nxt = [s for s in slots if self.last is None or s > self.last]
            s = nxt[0] if nxt else slots[0]
            self.last = s
            for i, m in enumerate(moves):
                if m[1] == s:
                    return i
            return 0
        if p == "placed":
            # realise a pre-drawn task -> worker placement (a random restricted-growth string per pool map): the next task of
            # the FIFO queue waits for its target worker to become idle, whatever the other workers do meanwhile
            ms = hub.map_state
            if ms is not None and ms["next"] < ms["n"]:
                key = (len(hub.maps), ms["next"])
                if not hasattr(self, "_plc"):
                    self._plc = {}
                used = sorted(sl for sl in ms["workers"] if hub.actors[sl].tasks_run > 0)
                if key not in self._plc:
                    k = self.rng.randrange(min(ms["w"], len(used) + 1))
                    self._plc[key] = used[k] if k < len(used) else "fresh"
                tgt = self._plc[key]
                if tgt == "fresh":
                    for i, m in enumerate(moves):
                        if m[0] == "task" and hub.actors[m[1]].tasks_run == 0:
                            return i
                else:
                    for i, m in enumerate(moves):
                        if m == ("task", tgt):
                            return i
                    for i, m in enumerate(moves):
                        if m == ("run", tgt):
                            return i
            runs = [i for i, m in enumerate(moves) if m[0] == "run"]
            if runs:
                return runs[self.rng.randrange(len(runs))]
            return self.rng.randrange(len(moves))
        if p == "yield":
            # pre-empt an actor right after it mutated a path (truncating open, rename, unlink, new sqlite file) and keep
            # it off the CPU for a few steps: the window in which peers can observe its half-done work
            hold = getattr(self, "_hold", None)
            if hold and hold[1] > 0:
                self._hold = (hold[0], hold[1] - 1)
                cand = [i for i, m in enumerate(moves) if m[1] != hold[0]]
                if cand:
                    return cand[self.rng.randrange(len(cand))]
            last = hub.trace[-1] if hub.trace else None
            if last and last[0] == "ev" and re.search(r":(open:[wa]|rename|remove|sqlite-connect):", last[3]) \
                    and self.rng.random() < 0.7:
                self._hold = (last[2], self.rng.choice([1, 2, 3, 5, 8, 13, 21]))
                cand = [i for i, m in enumerate(moves) if m[1] != last[2]]
                if cand:
                    return cand[self.rng.randrange(len(cand))]
            return self.rng.randrange(len(moves))
        if p == "starve":
            # one victim actor is starved for a window of steps (generalises a single PCT change point)
            if not hasattr(self, "_sv"):
                self._sv = (self.rng.randrange(4), self.rng.randrange(0, 70), self.rng.choice([4, 8, 16, 32, 64, 128]))
            v, s0, ln = self._sv
            slots = sorted(set(m[1] for m in moves))
            if hasattr(self, "_sv_fixed"):
                victim = v if s0 <= self.steps < s0 + ln else None
            else:
                victim = slots[v % len(slots)] if s0 <= self.steps < s0 + ln else None
            # a fixed victim may be a list of slots (all of them are starved during the window)
            victims = set(victim) if isinstance(victim, (list, tuple)) else {victim}
            cand = [i for i, m in enumerate(moves) if m[1] not in victims] or list(range(len(moves)))
            return cand[self.rng.randrange(len(cand))]
        if p == "pct":
            while self.change and self.steps >= self.change[0]:
                self.change.pop(0)
                if self.last is not None:
                    self.prio[self.last] = self.rng.random() * 0.5   # demote the running actor
            best = max(range(len(moves)), key=lambda i: (self._prio(moves[i][1]), -i))
            self.last = moves[best][1]
            return best
        return self.rng.randrange(len(moves))

    def perm(self, n):
        p = list(range(n))
        self.rng.shuffle(p)
        self.perms.append(p)
        return p


# ---------------------------------------------------------------------------- hub
class Actor:
    def __init__(self, slot, sock):
        self.slot = slot
        self.sock = sock
        self.pid = None
        self.role = "main" if slot == 0 else "worker"
        self.pending = None
        self.alive = False
        self.buf = b""
        self.tasks_run = 0
        self.name = None
        self.sleep_until = None


class Templater:
    def __init__(self, dirs, chroms=(), prefixes=()):
        # dirs: list of (abs path, placeholder) - longest first
        self.dirs = sorted(dirs, key=lambda x: -len(x[0]))
        self.res = []
        if chroms:
            alt = "|".join(re.escape(c) for c in sorted(chroms, key=lambda c: -len(c)))
            self.res.append((re.compile(r"(?<![A-Za-z0-9])(%s)(?![A-Za-z0-9])" % alt), "<chr>"))
        if prefixes:
            alt = "|".join(re.escape(c) for c in sorted(prefixes, key=lambda c: -len(c)))
            self.res.append((re.compile(r"(?<![A-Za-z0-9])(%s)(?![A-Za-z0-9])" % alt), "<prefix>"))

    def __call__(self, p):
        if p is None:
            return None
        for d, ph in self.dirs:
            if p.startswith(d):
                p = ph + p[len(d):]
                break
        for rx, ph in self.res:
            p = rx.sub(ph, p)
        # process ids in temporary file names are not part of a label
        p = re.sub(r"\.\d+\.tmp$", ".<pid>.tmp", p)
        return p


class Hub:
    def __init__(self, chooser, fault=None, step_cap=200000, templ=None, wall_cap=120.0, mtimes=None,
                 nslots=NSLOTS):
        self.chooser = chooser
        self.fault = fault or {}
        self.step_cap = step_cap
        self.wall_cap = wall_cap
        self.templ = templ or (lambda p: p)
        self.pairs = [socket.socketpair() for _ in range(nslots)]
        self.actors = {i: Actor(i, self.pairs[i][0]) for i in range(nslots)}
        self.trace = []
        self.ev_seq = 0
        self.steps = 0
        self.crashed = False
        self.interrupted = False
        self.crash_label = None
        self.killed_label = None
        self._spin = {}
        self.now = 0.0                # simulated seconds (advances only when every runnable actor sleeps)
        self.clock_jumps = 0
        self.exit_code = None
        self.map_state = None
        self.maps = []            # per map: {"fn":..., "placement": {slot: [tasks]}}
        self.mtimes = mtimes if mtimes is not None else {}
        self.clock = int(max([4_000_000_000] + [int(v) for v in self.mtimes.values()]))
        self.probes = {}
        self.extra_pids = []

    # -- plumbing
    def actor_socks(self):
        return [p[1] for p in self.pairs]

    def close_actor_side(self):
        for p in self.pairs:
            p[1].close()

    def close(self):
        for p in self.pairs:
            try:
                p[0].close()
            except Exception:
                pass

    def _recv(self, a, deadline):
        while b"\n" not in a.buf:
            left = deadline - _time.monotonic()
            if left <= 0:
                raise HarnessError("wall cap exceeded waiting for slot %d" % a.slot)
            r, _, _ = select.select([a.sock], [], [], min(left, 5.0))
            if not r:
                continue
            chunk = a.sock.recv(65536)
            if not chunk:
                return None
            a.buf += chunk
        line, _, rest = a.buf.partition(b"\n")
        a.buf = rest
        return json.loads(line)

    def _reply(self, a, msg):
        a.pending = None
        a.sock.sendall((json.dumps(msg) + "\n").encode())

    def probe(self, name, n=1):
        self.probes[name] = self.probes.get(name, 0) + n

    # -- life cycle of actors started by the caller
    def register(self, slot, pid, role="main", name=None):
        a = self.actors[slot]
        a.pid, a.alive, a.role, a.name = pid, True, role, name

    def kill_all(self):
        for a in self.actors.values():
            if a.alive and a.pid:
                try:
                    os.kill(a.pid, signal.SIGKILL)
                except ProcessLookupError:
                    pass
        for pid in self.extra_pids:
            try:
                os.kill(pid, signal.SIGKILL)
            except ProcessLookupError:
                pass
        for a in self.actors.values():
            if a.alive and a.pid and a.role != "worker":
                try:
                    os.waitpid(a.pid, 0)
                except ChildProcessError:
                    pass
            a.alive = False
        reap()

    # -- the loop for ONE main actor (+ its pool workers)
    def run(self, main_slots=(0,)):
        """drive until every top-level actor in main_slots has exited, or the fault fires.
        All main_slots actors must already be forked and registered; each starts *parked* (it sends hello)."""
        deadline = _time.monotonic() + self.wall_cap
        mains = list(main_slots)
        # collect hello from each
        for s in mains:
            m = self._recv(self.actors[s], deadline)
            if m is None:
                raise HarnessError("actor %d died before hello" % s)
            self.actors[s].pending = m
        exit_codes = {}
        running = None
        while True:
            if running is not None:
                a = self.actors[running]
                m = self._recv(a, deadline)
                if m is None or m.get("t") == "bye":
                    a.alive = False
                    if a.role != "worker":
                        try:
                            _, st = os.waitpid(a.pid, 0)
                            code = os.waitstatus_to_exitcode(st)
                        except ChildProcessError:
                            code = None
                        exit_codes[a.slot] = code
                        self.trace.append(["exit", a.slot, code])
                    else:
                        ms = self.map_state
                        if ms is not None and a.slot in ms["exiting"]:
                            ms["exiting"].discard(a.slot)
                        else:
                            raise HarnessError("worker %d vanished" % a.slot)
                else:
                    a.pending = m
                    if m["t"] == "map":
                        self._start_map(a, m, deadline)
                    elif m["t"] == "task_done":
                        self.trace.append(["complete", m["i"], a.slot])
                        self.map_state["done"] += 1
                running = None
            # exit workers eagerly once the queue is drained
            ms = self.map_state
            if ms is not None and ms["next"] >= ms["n"]:
                for s in list(ms["workers"]):
                    w = self.actors[s]
                    if w.alive and w.pending and w.pending["t"] in ("idle", "task_done"):
                        ms["exiting"].add(s)
                        ms["workers"].remove(s)
                        self._reply(w, {"a": "exit"})
                        # wait for its EOF right away: it only flushes and exits
                        while True:
                            mm = self._recv(w, deadline)
                            if mm is None or mm.get("t") == "bye":
                                break
                        w.alive = False
                        ms["exiting"].discard(s)
                if not ms["workers"] and ms["done"] >= ms["n"]:
                    owner = self.actors[ms["owner"]]
                    self.maps.append({"fn": ms["fn"], "placement": ms["placement"], "w": ms["w"], "n": ms["n"]})
                    self.map_state = None
                    self._reply(owner, {"a": "raise" if ms.get("interrupt_owner") else "go"})
                    running = owner.slot
                    continue
            if all(s in exit_codes for s in mains):
                break
            moves = self._moves()
            if not moves:
                raise HarnessError("deadlock: no enabled move; pending=%r" %
                                   {s: a.pending for s, a in self.actors.items() if a.alive})
            self.steps += 1
            if self.steps > self.step_cap:
                self.kill_all()
                raise HarnessError("step cap exceeded")
            i = self.chooser.choose(self, moves)
            kind, slot = moves[i]
            a = self.actors[slot]
            if kind == "task":
                ms = self.map_state
                t = ms["next"]
                ms["next"] += 1
                ms["placement"].setdefault(slot, []).append(t)
                a.tasks_run += 1
                self.trace.append(["dispatch", t, slot])
                self._reply(a, {"a": "task", "i": t})
                running = slot
                continue
            m = a.pending
            if m["t"] in ("hello", "done"):
                self._reply(a, {"a": "go"})
                running = slot
                continue
            if m["t"] == "glob":
                perm = self.chooser.perm(m["n"])
                self.trace.append(["glob", a.role, self.templ(m.get("p")), perm])
                self._reply(a, {"a": "perm", "perm": perm})
                running = slot
                continue
            if m["t"] == "ev":
                if m["k"] == "sleep":
                    a.sleep_until = None          # woken up: the sleep is over
                else:
                    self.clock_jumps = 0
                seq = self.ev_seq
                self.ev_seq += 1
                label = "%s:%s:%s" % (a.role, m["k"], self.templ(m["p"]))
                self.trace.append(["ev", seq, a.slot, label])
                self._observe(a, m, seq)
                f = self.fault
                if f.get("kind") == "kill_actor" and f.get("index") == seq and a.role != "worker":
                    # only this top-level actor dies (OOM killer, scancel of one job); its peers go on
                    phase = f.get("phase", "before")
                    if phase == "after":
                        ans = {"a": "go_report"}
                        if m["k"] == "getmtime":
                            ans["mtime"] = self.mtimes.get(m["p"], 0)
                        self._reply(a, ans)
                        self._recv(a, deadline)
                    self.trace.append(["kill_actor", a.slot, phase, seq])
                    self.killed_label = label
                    try:
                        os.kill(a.pid, signal.SIGKILL)
                    except ProcessLookupError:
                        pass
                    try:
                        os.waitpid(a.pid, 0)
                    except ChildProcessError:
                        pass
                    a.alive, a.pending = False, None
                    exit_codes[a.slot] = "killed"
                    running = None
                    continue
                if f.get("kind") == "interrupt" and f.get("index") == seq and not self.interrupted:
                    # SIGINT sent to the top-level process (kill -INT <pid>): Python raises KeyboardInterrupt in its main thread
                    # at the system call it is in; the stack unwinds (finally blocks, destructors, exit handlers run, all of
                    # them still scheduled by this hub).  When the signal arrives while the process waits for its pool (the
                    # event belongs to a worker) the executor first lets the workers finish the queue (shutdown(wait=True) in
                    # __exit__), then the exception surfaces in the owner: delivered when the map completes.
                    self.interrupted = True
                    self.crash_label = label
                    if a.role == "worker" and self.map_state is not None:
                        self.map_state["interrupt_owner"] = True
                        self.trace.append(["interrupt", "deferred-to-pool-owner", seq])
                    else:
                        phase = f.get("phase", "before")
                        self.trace.append(["interrupt", phase, seq])
                        ans = {"a": "raise"} if phase == "before" else {"a": "go", "raise_after": True}
                        if m["k"] == "getmtime":
                            ans["mtime"] = self.mtimes.get(m["p"], 0)
                        self._reply(a, ans)
                        running = slot
                        continue
                hit = f.get("kind") == "kill" and f.get("index") == seq
                if hit and f.get("phase") == "before":
                    self.crashed, self.crash_label = True, label
                    self.trace.append(["kill", "before", seq])
                    self.kill_all()
                    return {"exit": None, "crashed": True}
                ans = {"a": "go_report" if hit else "go"}
                if m["k"] == "getmtime":
                    ans["mtime"] = self.mtimes.get(m["p"], None)
                    if ans["mtime"] is None:
                        try:
                            ans["mtime"] = seams._real_getmtime(m["p"])
                        except OSError:
                            ans["mtime"] = 0
                self._reply(a, ans)
                if hit:
                    mm = self._recv(a, deadline)
                    self.crashed, self.crash_label = True, label
                    self.trace.append(["kill", "after", seq])
                    self.kill_all()
                    return {"exit": None, "crashed": True}
                running = slot
                continue
            raise HarnessError("unexpected pending %r" % (m,))
        reap()
        self.exit_code = exit_codes.get(mains[0])
        return {"exit": self.exit_code, "crashed": bool(self.interrupted), "interrupted": bool(self.interrupted),
                "exit_codes": exit_codes}

    def _observe(self, a, m, seq):
        k, p = m["k"], m["p"]
        if k.startswith("open:") and k != "open:r" or k in ("write", "rename") or \
                (k == "sqlite-commit" and m.get("dirty", True)) or (k == "sqlite-connect" and m.get("new")):
            self.clock += 1
            self.mtimes[p] = float(self.clock)
        elif k == "remove":
            self.mtimes.pop(p, None)
        if self.on_event:
            self.on_event(self, a, m, seq)

    on_event = None

    def _start_map(self, owner, m, deadline):
        if self.map_state is not None:
            raise HarnessError("nested map")
        w = m["w"]
        # pool workers of this owner use slots owner.slot+1 .. owner.slot+w (single-main engine: 1..w)
        slots = list(range(1, w + 1))
        for s, pid in zip(slots, m["pids"]):
            a = self.actors[s]
            a.pid, a.alive, a.role, a.buf, a.tasks_run = pid, True, "worker", b"", 0
            mm = self._recv(a, deadline)
            if mm is None or mm["t"] != "idle":
                raise HarnessError("worker %d bad hello %r" % (s, mm))
            a.pending = mm
        self.map_state = {"owner": owner.slot, "n": m["n"], "w": w, "next": 0, "done": 0, "workers": slots,
                          "exiting": set(), "placement": {}, "fn": m.get("fn")}
        self.trace.append(["map", m.get("fn"), m["n"], w])

    def _moves(self):
        moves = self._moves_at(self.now)
        if not moves:
            # nothing is runnable now: simulated time jumps to the earliest wake-up
            wake = [a.sleep_until for a in self.actors.values()
                    if a.alive and a.pending is not None and getattr(a, "sleep_until", None) is not None and a.sleep_until > self.now]
            if wake:
                self.now = min(wake)
                self.clock_jumps += 1
                if self.clock_jumps > 400:
                    sl = sorted(a.slot for a in self.actors.values() if a.alive and a.pending is not None)
                    self.kill_all()
                    raise HarnessError("livelock: actors %s only sleep and poll (simulated clock advanced %d times in a row to "
                                       "%.0f s without any other event)" % (sl, self.clock_jumps, self.now))
                moves = self._moves_at(self.now)
        return moves

    def _moves_at(self, now):
        moves = []
        fresh_seen = False
        ms = self.map_state
        for s in sorted(self.actors):
            a = self.actors[s]
            if not a.alive or a.pending is None:
                continue
            if a.pending.get("t") == "ev" and a.pending.get("k") == "sleep":
                if getattr(a, "sleep_until", None) is None:
                    a.sleep_until = now + float(a.pending.get("d") or 0.0)
                if a.sleep_until > now:
                    continue
            t = a.pending["t"]
            if t in ("ev", "done", "glob", "hello"):
                moves.append(("run", s))
            elif t in ("idle", "task_done") and ms is not None and ms["next"] < ms["n"]:
                if a.tasks_run == 0:
                    if fresh_seen:
                        continue
                    fresh_seen = True
                moves.append(("task", s))
        return moves
