"""C05 machine: however a read island is cut into processing regions, every alignment belongs to at least one region, and
the in-memory alignment store (--high_memory) hands out, for every region, exactly the alignments that overlap it - the same
answer the streaming store gets from an indexed BAM fetch.  Real code: AlignmentCollector.split_coverage_regions,
AbstractAlignmentStorage.add_alignment (coverage bins), InMemoryAlignmentStorage.fill_index / get_alignments."""


class _Al:
    __slots__ = ("reference_start", "reference_end", "query_name")

    def __init__(self, s, e, n):
        self.reference_start, self.reference_end, self.query_name = s, e, n


def expand(case):
    """case["records"]: [[start offset from the previous start, length, multiplicity], ...] -> sorted [(start, end_excl)]"""
    out = []
    pos = case.get("origin", 1000)
    for d, ln, mult in case["records"]:
        pos += d
        for _ in range(mult):
            out.append((pos, pos + ln))
    return out


def judge(case):
    from src.alignment_processor import AlignmentCollector, InMemoryAlignmentStorage
    from src.common import overlaps
    problems = []
    recs = expand(case)
    # one island: every record overlaps the region covered so far (this is how AlignmentCollector.process feeds a store)
    store = InMemoryAlignmentStorage()
    als = []
    for i, (s, e) in enumerate(recs):
        a = _Al(s, e, "q%d" % i)
        if store.region is not None and store.alignment_is_not_adjacent(a):
            return [("domain", "records do not form one island")]
        store.add_alignment(0, a)
        als.append(a)
    region = store.region
    try:
        regions = AlignmentCollector.split_coverage_regions(region, store)
    except Exception as e:
        return [("split-crash:%s" % type(e).__name__, "%r" % (e,))]
    # (a) no alignment is left without a region
    lost = [a.query_name for a in als if not any(overlaps(r, (a.reference_start, a.reference_end - 1)) for r in regions)]
    if lost:
        problems.append(("split-loses-reads", "island %s with %d alignments is cut into %s: %d alignments overlap no region (first: %s)" % (
            region, len(als), regions[:6], len(lost), lost[:3])))
    for r1, r2 in zip(regions[:-1], regions[1:]):
        if r2[0] != r1[1] + 1:
            problems.append(("split-not-contiguous", "regions %s and %s" % (r1, r2)))
            break
    # (b) the in-memory store returns exactly the overlapping alignments of every region, in stream order
    if len(regions) > 1:
        for r in regions:
            try:
                got = [a.query_name for _, a in store.get_alignments(r)]
            except Exception as e:
                problems.append(("store-crash:%s" % type(e).__name__, "region %s: %r" % (r, e)))
                break
            want = [a.query_name for a in als if overlaps(r, (a.reference_start, a.reference_end - 1))]
            if got != want:
                miss = [q for q in want if q not in set(got)]
                extra = [q for q in got if q not in set(want)]
                kind = "store-misses-reads" if miss else ("store-extra-reads" if extra else "store-order")
                problems.append((kind, "region %s of island %s: in-memory store returns %d alignments, %d overlap it; missing %s, "
                                 "unexpected %s" % (r, region, len(got), len(want), miss[:3], extra[:3])))
                break
    return problems


def strategy():
    from hypothesis import strategies as st

    @st.composite
    def case(draw):
        shape = draw(st.sampled_from(["mixed", "mixed", "mixed", "short_pile", "tail"]))
        k = draw(st.integers(2, 40)) if shape != "short_pile" else draw(st.integers(1, 4))
        recs = []
        pos, max_end = 0, None
        origin = draw(st.sampled_from([1000, 1024, 1030, 1279, 5000, 65536 - 10]))
        deep_left = draw(st.integers(0, 2)) if shape != "short_pile" else 1
        lens = [40, 150, 250, 300, 1000, 3000, 20000, 40000, 70000] if shape != "short_pile" else [40, 90, 150, 200]
        for i in range(k):
            ln = draw(st.sampled_from(lens))
            if max_end is None:
                d = 0
            else:
                # the next record starts inside the island (overlap of at least 1 base)
                room = max_end - pos - 1
                if shape == "tail" and i >= k - 3:
                    # short reads at the very end of the island
                    d = max(0, room - draw(st.sampled_from([5, 30, 60, 150, 300])))
                    ln = draw(st.sampled_from([40, 100, 150, 250, 400]))
                else:
                    d = min(room, draw(st.sampled_from([0, 1, 10, 100, 256, 300, 1000, 5000, 33000, 10 ** 6]))
                               if shape != "short_pile" else draw(st.sampled_from([0, 1, 5, 20])))
                d = max(0, d)
            mult = 1
            if deep_left and (draw(st.integers(0, 9)) == 0 or (shape == "short_pile" and i == 0)):
                mult = draw(st.sampled_from([3, 120, 210, 1100])) if shape != "short_pile" else 1100
                deep_left -= 1
            pos += d
            recs.append([d, ln, mult])
            max_end = pos + ln if max_end is None else max(max_end, pos + ln)
        return {"origin": origin, "records": recs}
    return case()


def run(args):
    from hypothesis import given, settings, seed, HealthCheck, Phase
    tolerated = set(args.get("tolerated") or [])
    state = {"examples": 0, "distinct": set(), "fail": None, "samples": [], "split": 0, "deep": 0, "multi_region_checked": 0}

    @settings(max_examples=args.get("max_examples", 200), database=None, deadline=None, suppress_health_check=list(HealthCheck),
              report_multiple_bugs=False, phases=[Phase.generate, Phase.shrink])
    @seed(args.get("seed", 0))
    @given(strategy())
    def prop(case):
        import json
        state["examples"] += 1
        state["distinct"].add(json.dumps(case, sort_keys=True))
        recs = expand(case)
        span = max(e for _, e in recs) - recs[0][0]
        if span >= 32768 or len(recs) >= 1024:
            state["split"] += 1
        if len(recs) >= 1024:
            state["deep"] += 1
        if len(state["samples"]) < 2:
            state["samples"].append(case)
        probs = [p for p in judge(case) if p[0] not in tolerated and p[0] != "domain"]
        if probs:
            state["fail"] = {"case": case, "problems": probs}
            raise AssertionError(probs[0][1])
    try:
        prop()
    except AssertionError:
        pass
    except Exception:
        if state["fail"] is None:
            import traceback
            return {"error": traceback.format_exc()[-1500:]}
    return {"examples": state["examples"], "distinct": len(state["distinct"]), "fail": state["fail"], "samples": state["samples"],
            "islands_long_or_deep_enough_to_split": state["split"], "islands_with_1024+_alignments": state["deep"]}


def replay_case(args):
    return {"problems": judge(args["case"])}
