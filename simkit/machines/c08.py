"""C08 machine: multi-mapper resolution against a small reference model, under every permutation of the records.

Runs inside a fork-server job (so the SUT hash seed is a parameter).  Hypothesis generates the multiset of alignments of
one read; the real MultimapResolver.resolve is applied to every permutation (<= 6 records) or to sampled permutations;
the model is deliberately no stricter than the property's text."""
import io
import itertools
import json
import random

CONSISTENT = ("unique", "unique_minor_difference", "ambiguous")
INCONS = ("inconsistent", "inconsistent_non_intronic", "inconsistent_ambiguous")
UNINF = ("noninformative", "intergenic")
TYPES = CONSISTENT + INCONS + UNINF


def make_record(rec, aid):
    """rec: dict(chr, start, end, region, secondary, polya, type, isoforms, genes, penalty)"""
    from src.isoform_assignment import BasicReadAssignment, ReadAssignmentType
    a = BasicReadAssignment.__new__(BasicReadAssignment)
    a.assignment_id = aid
    a.read_id = "read1"
    a.chr_id = rec["chr"]
    a.start = rec["start"]
    a.end = rec["end"]
    a.genomic_region = tuple(rec["region"])
    a.multimapper = bool(rec["secondary"])
    a.polyA_found = bool(rec["polya"])
    t = ReadAssignmentType[rec["type"]]
    a.assignment_type = t
    genes = list(rec["genes"])
    if rec["type"] == "ambiguous":
        a.gene_assignment_type = ReadAssignmentType.ambiguous if len(set(genes)) > 1 else ReadAssignmentType.unique
    elif rec["type"] == "inconsistent_ambiguous":
        a.gene_assignment_type = ReadAssignmentType.inconsistent_ambiguous if len(set(genes)) > 1 else ReadAssignmentType.inconsistent
    else:
        a.gene_assignment_type = t
    a.penalty_score = float(rec["penalty"])
    a.isoforms = list(rec["isoforms"])
    a.genes = genes
    return a


def content_key(rec):
    # identity of an alignment for the retained-set comparison: where it is and what it was assigned to (the processing
    # region is not part of it: the same alignment seen from two overlapping regions is one alignment)
    return json.dumps([rec["chr"], rec["start"], rec["end"], rec["secondary"], rec["type"],
                       sorted(rec["isoforms"]), sorted(rec["genes"])])


def dup_key(rec):
    # "exact duplicates count once": identical alignment of the same read
    return json.dumps([rec["chr"], rec["start"], rec["end"], sorted(rec["isoforms"])])


def model_class(rec):
    t = rec["type"]
    if t in ("unique", "unique_minor_difference") and not rec["secondary"]:
        return 0
    if t in CONSISTENT:
        return 1
    if t in INCONS:
        return 2
    return 3


def resolve_real(recs, order, via_stream=False, via_pickle=False):
    """returns list (aligned with recs) of (assignment_type name, gene_assignment_type name) after resolution"""
    from src.multimap_resolver import MultimapResolver, MultimapResolvingStrategy
    from src.isoform_assignment import BasicReadAssignment
    objs = [make_record(recs[i], 100 + i) for i in order]
    if via_stream:
        buf = io.BytesIO()
        for o in objs:
            o.serialize(buf)
        buf.seek(0)
        objs = [BasicReadAssignment.deserialize(buf) for _ in objs]
    if via_pickle:
        # --high_memory with --threads > 1: the compact records reach the resolver through the pool's pickle boundary
        import pickle
        objs = pickle.loads(pickle.dumps(objs, protocol=pickle.HIGHEST_PROTOCOL))
    res = MultimapResolver(MultimapResolvingStrategy.take_best).resolve(objs)
    out = [None] * len(recs)
    byid = {o.assignment_id: o for o in res}
    for pos, i in enumerate(order):
        o = byid[100 + i]
        out[i] = (o.assignment_type.name, o.gene_assignment_type.name, bool(o.multimapper))
    return out


def judge(recs, max_perms=720, rng=None):
    """returns list of (kind, text)"""
    problems = []
    n = len(recs)
    if n < 2:
        return problems
    perms = list(itertools.permutations(range(n))) if n <= 6 else None
    if perms is None:
        rng = rng or random.Random(0)
        perms = [tuple(range(n)), tuple(reversed(range(n)))] + [tuple(rng.sample(range(n), n)) for _ in range(60)]
    classes = [model_class(r) for r in recs]
    win = min(classes)
    winners = [i for i in range(n) if classes[i] == win]
    retained_sets = {}
    first = None
    for order in perms[:max_perms]:
        try:
            res = resolve_real(recs, order)
        except Exception as e:   # the resolver must not crash on any multiset
            problems.append(("crash", "resolver raised %s: %r on order %s" % (type(e).__name__, e, list(order))))
            break
        retained = [i for i in range(n) if res[i][0] != "suspended"]
        # (1) model agreement
        if not retained:
            problems.append(("none-retained", "no alignment retained, order %s" % (list(order),)))
            break
        wrong_class = [i for i in retained if classes[i] != win]
        if wrong_class:
            problems.append(("wrong-class", "retained %s of class %s although class %d is present (order %s)" % (
                wrong_class, [classes[i] for i in wrong_class], win, list(order))))
            break
        if win in (0, 1):
            # exactly the members of the class, exact duplicates once
            want = set(dup_key(recs[i]) for i in winners)
            got = [dup_key(recs[i]) for i in retained]
            if set(got) != want:
                problems.append(("class-member-lost", "class %d members %s, retained %s (order %s)" % (win, winners, retained, list(order))))
                break
            if len(got) != len(set(got)):
                problems.append(("duplicate-kept-twice", "exact duplicates retained twice: %s (order %s)" % (retained, list(order))))
                break
        # (2) every non-retained record is suspended at gene level too
        for i in range(n):
            if (res[i][0] == "suspended") != (res[i][1] == "suspended"):
                problems.append(("half-suspended", "record %d: transcript type %s, gene type %s" % (i, res[i][0], res[i][1])))
        # (3) ambiguity flag
        iso = set()
        genes = set()
        for i in retained:
            iso.update(recs[i]["isoforms"])
            genes.update(recs[i]["genes"])
        if len(retained) >= 2 and len(iso) >= 2:
            for i in retained:
                if res[i][0] not in ("ambiguous", "inconsistent_ambiguous"):
                    problems.append(("tie-not-flagged", "retained at %d loci with isoforms %s but record %d is %s" % (
                        len(retained), sorted(iso), i, res[i][0])))
                    break
        if len(retained) >= 2 and len(genes) >= 2:
            for i in retained:
                if res[i][1] not in ("ambiguous", "inconsistent_ambiguous"):
                    problems.append(("gene-tie-not-flagged", "retained at %d loci with genes %s but record %d gene type is %s" % (
                        len(retained), sorted(genes), i, res[i][1])))
                    break
        if problems:
            break
        # (4) permutation invariance of the retained SET (by content)
        key = tuple(sorted(content_key(recs[i]) for i in retained))
        if first is None:
            first = (key, list(order), retained)
        elif key != first[0]:
            kind = "order-dependent"
            if win == 3:
                kind = "order-dependent-uninformative"
            elif win == 2:
                kind = "order-dependent-inconsistent"
            problems.append((kind, "retained set depends on the order of records: order %s keeps %s, order %s keeps %s" % (
                first[1], first[2], list(order), retained)))
            break
    if not problems:
        # (5) both resolution inputs (objects vs. stream) give the same verdicts
        order = tuple(range(n))
        try:
            a = resolve_real(recs, order)
            b = resolve_real(recs, order, via_stream=True)
            if a != b:
                problems.append(("stream-differs", "verdicts differ after serialize/deserialize: %s vs %s" % (a, b)))
            c = resolve_real(recs, order, via_pickle=True)
            if a != c:
                problems.append(("pickle-differs", "verdicts differ after the pool's pickle round trip: %s vs %s" % (a, c)))
        except Exception as e:
            problems.append(("stream-crash", "%s: %r" % (type(e).__name__, e)))
    return problems


def strategy():
    from hypothesis import strategies as st
    iso_pool = ["t1", "t2", "t3", "t4"]
    gene_of = {"t1": "g1", "t2": "g1", "t3": "g2", "t4": "g3"}

    @st.composite
    def record(draw):
        t = draw(st.sampled_from(TYPES))
        if t in UNINF:
            isoforms = []
        elif t in ("ambiguous", "inconsistent_ambiguous"):
            # one process builds the isoform list of equal alignments in the same order: canonical order here
            isoforms = sorted(draw(st.lists(st.sampled_from(iso_pool), min_size=2, max_size=3, unique=True)))
        else:
            isoforms = [draw(st.sampled_from(iso_pool))]
        start = draw(st.integers(1, 40)) * 100
        length = draw(st.sampled_from([200, 500, 900]))
        rs = max(1, start - draw(st.sampled_from([0, 50, 100, 300])))
        re_ = start + length + draw(st.sampled_from([0, 50, 100]))
        return {"chr": draw(st.sampled_from(["chrA", "chrB", "chrC"])), "start": start, "end": start + length,
                "region": [rs, re_], "secondary": draw(st.booleans()), "polya": draw(st.booleans()), "type": t,
                "isoforms": isoforms, "genes": sorted(set(gene_of[i] for i in isoforms)),
                "penalty": draw(st.sampled_from([0.0, 0.0, 0.5, 1.0, 2.0]))}   # event costs are non-negative

    @st.composite
    def multiset(draw):
        recs = draw(st.lists(record(), min_size=2, max_size=5))
        # exact duplicates (same alignment listed twice)
        if draw(st.booleans()):
            recs.append(dict(recs[draw(st.integers(0, len(recs) - 1))]))
        # two records of the same alignment (same place, same isoforms) are copies of each other, nothing else
        from hypothesis import assume
        seen = {}
        for r in recs:
            k = dup_key(r)
            if k in seen:
                assume(all(seen[k][f] == r[f] for f in ("type", "genes", "penalty", "polya", "secondary", "isoforms")))
            else:
                seen[k] = r
        # at most one primary alignment per read, as in a BAM file
        prim = [i for i, r in enumerate(recs) if not r["secondary"]]
        keep = draw(st.sampled_from(prim)) if prim else None
        for i in prim:
            if i != keep and dup_key(recs[i]) != dup_key(recs[keep]):
                recs[i] = dict(recs[i], secondary=True)
        for i, r in enumerate(recs):
            # copies of one alignment carry the same flag
            for j in range(i):
                if dup_key(recs[j]) == dup_key(r):
                    recs[i] = dict(r, secondary=recs[j]["secondary"])
                    break
        return recs
    return multiset()


def run(args):
    """args: seed, max_examples, tolerated (list of kinds listed as known findings)"""
    import sys
    from hypothesis import given, settings, seed, HealthCheck, Phase
    tolerated = set(args.get("tolerated") or [])
    state = {"examples": 0, "distinct": set(), "fail": None, "known": {}, "classes": {}, "samples": []}

    @settings(max_examples=args.get("max_examples", 200), database=None, deadline=None,
              suppress_health_check=list(HealthCheck), report_multiple_bugs=False, derandomize=False,
              phases=[Phase.generate, Phase.shrink])
    @seed(args.get("seed", 0))
    @given(strategy())
    def prop(recs):
        state["examples"] += 1
        state["distinct"].add(tuple(sorted(content_key(r) for r in recs)))
        w = min(model_class(r) for r in recs)
        state["classes"][w] = state["classes"].get(w, 0) + 1
        if len(state["samples"]) < 3:
            state["samples"].append(recs)
        probs = judge(recs)
        unl = [p for p in probs if p[0] not in tolerated]
        for p in probs:
            if p[0] in tolerated:
                k = state["known"].setdefault(p[0], {"count": 0, "example": None})
                k["count"] += 1
                if k["example"] is None or len(recs) < len(k["example"]["records"]):
                    k["example"] = {"records": recs, "text": p[1]}
        if unl:
            state["fail"] = {"records": recs, "problems": unl}
            raise AssertionError(unl[0][1])

    try:
        prop()
    except AssertionError:
        pass
    except Exception as e:   # hypothesis internal errors (Flaky etc.) are harness errors
        if state["fail"] is None:
            return {"error": "%s: %s" % (type(e).__name__, e)}
    return {"examples": state["examples"], "distinct": len(state["distinct"]), "fail": state["fail"], "known": state["known"],
            "winning_class_histogram": state["classes"], "samples": state["samples"]}


def replay_case(args):
    import sys
    return {"problems": judge(args["records"])}
