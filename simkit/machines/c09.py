"""C09/C02 machine: the counters of every chromosome are filled by one worker each, dumped to per-chromosome files and
merged by the parent (stage hand-over through files).  A seeded sequence of counting operations is dealt onto 1..4
chromosomes and pushed through the real AssignedFeatureCounter / merge_counts / convert_counts_to_tpm, once with read groups
and once without; the merged tables are parsed and compared with the documented weighting:
  * every ungrouped value is 0 or the documented sum, and is the sum when a uniquely assigned confirming read supports it;
  * matrix and linear renderings hold the same (feature, group, value) triples; groups of a feature sum to its ungrouped value;
  * __ambiguous / __no_feature / __not_aligned equal the numbers of such operations; TPM = rescaled counts (10^6, simple);
  * the result does not depend on how the features are dealt onto chromosomes (same rows as the single-chromosome run)."""
import os
import shutil
import tempfile
import types

STRATS = ["unique_only", "with_ambiguous", "unique_splicing_consistent", "unique_inconsistent", "all"]
ATYPES = ["unique", "unique_minor_difference", "ambiguous", "inconsistent", "inconsistent_non_intronic",
          "inconsistent_ambiguous", "noninformative", "intergenic"]


def weight(strategy, atype, k):
    from ..oracles.counts import weight as w
    return w(strategy, atype, k)


def _fake_assignment(kind, feats, atype, group, confirm, mult=1):
    from src.isoform_assignment import ReadAssignmentType
    ra = types.SimpleNamespace()
    t = ReadAssignmentType[atype]
    ra.read_id = "r"
    ra.assignment_type = t
    ra.gene_assignment_type = t
    if kind == "gene" and mult > 1 and t.is_unique():
        # unique at gene level, shared by several isoforms of that gene at transcript level
        ra.assignment_type = ReadAssignmentType.ambiguous
    ra.read_group = group
    # gene level: several matched isoforms may name one and the same gene (mult matches per gene)
    reps = mult if kind == "gene" else 1
    ra.isoform_matches = [types.SimpleNamespace(assigned_transcript="%s.t%d" % (f, j) if kind == "gene" else f, assigned_gene=f)
                          for f in feats for j in range(reps)] or \
        [types.SimpleNamespace(assigned_transcript=None, assigned_gene=None)]
    # transcript level: a unique read confirms its isoform when the isoform is mono-exonic or the read is spliced
    ra.gene_info = types.SimpleNamespace(all_isoforms_introns={f: [(1, 2)] for f in feats})
    ra.corrected_exons = [(1, 2), (3, 4)] if confirm else [(1, 4)]
    if kind == "gene" and not confirm:
        # gene level: every gene-unique read confirms; model "does not confirm" by a non-unique type upstream
        pass
    return ra


def run_tables(case, chrom_of, d):
    """fills real counters, dumps, merges; returns dict name -> text"""
    from src.long_read_counter import create_gene_counter, create_transcript_counter, GroupedOutputFormat
    from src.file_utils import merge_counts
    kind, strat = case["kind"], case["strategy"]
    groups = sorted(set(op["g"] for op in case["ops"] if op.get("g") is not None))
    fmt = GroupedOutputFormat[case["format"]]
    chr_ids = sorted(set(chrom_of.values())) or ["c1"]
    create = create_gene_counter if kind == "gene" else create_transcript_counter
    zeroes = kind != "model"
    label = "SMP"

    def mk(prefix, feats, grouped):
        if grouped:
            return create(prefix, strat, complete_feature_list=feats if zeroes else None, read_groups=set(groups),
                          output_zeroes=zeroes, grouped_format=fmt)
        return create(prefix, strat, complete_feature_list=feats if zeroes else None, output_zeroes=zeroes)
    for grouped in (False, True):
        if grouped and not groups:
            continue
        suffix = ".%s%s" % (kind, "_grouped" if grouped else "")
        for c in chr_ids:
            feats = [f for f in case["features"] if chrom_of.get(f) == c]
            cnt = mk(os.path.join(d, "%s_%s%s" % (label, c, suffix)), feats, grouped)
            for op in case["ops"]:
                if op["t"] == "unaligned":
                    if c == chr_ids[0]:
                        cnt.add_unaligned(1)
                    continue
                fs = op["f"]
                home = chrom_of.get(fs[0]) if fs else chr_ids[op.get("c", 0) % len(chr_ids)]
                if home != c:
                    continue
                g = op.get("g")
                if kind == "model":
                    if op["t"] == "unassigned":
                        cnt.add_unassigned(1)
                    else:
                        cnt.add_read_info_raw("r", list(fs), g) if grouped else cnt.add_read_info_raw("r", list(fs))
                else:
                    cnt.add_read_info(_fake_assignment(kind, fs if op["t"] != "unassigned" else [], op.get("a", "noninformative"),
                                                       g, op.get("confirm", False), op.get("m", 1)))
            if kind == "model":
                cnt.add_confirmed_features([f for f in case.get("confirmed", []) if chrom_of.get(f) == c])
            cnt.dump()
        merged = mk(os.path.join(d, label + suffix), [], grouped)
        merge_counts(merged, label, chr_ids, case.get("unaligned_total", 0))
        merged.convert_counts_to_tpm(case.get("norm", "simple"))
    out = {}
    for fn in sorted(os.listdir(d)):
        with open(os.path.join(d, fn)) as f:
            out[fn] = f.read()
    return out


def parse_ungrouped(txt):
    vals, stats = {}, {}
    for l in txt.split("\n"):
        if not l or l.startswith("#"):
            continue
        k, v = l.split("\t")[:2]
        (stats if k.startswith("__") else vals)[k] = float(v)
    return vals, stats


def judge(case):
    problems = []
    kind, strat = case["kind"], case["strategy"]
    feats = case["features"]
    groups = sorted(set(op["g"] for op in case["ops"] if op.get("g") is not None))
    layouts = [{f: "c1" for f in feats}]
    n = max(1, case.get("n_chr", 1))
    if n > 1:
        # whole loci are dealt onto chromosomes: the features of one read always live on one chromosome
        loc = case.get("locus") or {}
        layouts.append({f: "c%d" % (1 + (loc.get(f, i) * 7 + case.get("deal", 0)) % n) for i, f in enumerate(feats)})
    # documented model
    model, gmodel, confirmed = {}, {}, set(case.get("confirmed", [])) if kind == "model" else set()
    n_amb = n_nof = n_una = 0
    for op in case["ops"]:
        if op["t"] == "unaligned":
            n_una += 1
            continue
        fs = sorted(set(op["f"])) if op["t"] != "unassigned" else []
        if kind == "model":
            if not fs:
                n_nof += 1
                continue
            w = 1.0 if len(fs) == 1 else (1.0 / len(fs) if strat in ("with_ambiguous", "all") else 0.0)
            if len(fs) > 1:
                n_amb += 1
        else:
            a = op.get("a", "noninformative")
            if a in ("noninformative", "intergenic") or not fs:
                n_nof += 1
                continue
            if a == "ambiguous":
                n_amb += 1
            if a in ("unique", "unique_minor_difference"):
                fs = fs[:1] if len(fs) > 1 else fs
            w = weight(strat, a, len(fs))
            if a in ("unique", "unique_minor_difference") and (kind == "gene" or op.get("confirm")):
                confirmed.add(fs[0])
        for f in fs:
            model[f] = model.get(f, 0.0) + w
            if op.get("g") is not None:
                gmodel[(f, op["g"])] = gmodel.get((f, op["g"]), 0.0) + w
    results = []
    for li, chrom_of in enumerate(layouts):
        d = tempfile.mkdtemp(prefix="c09m_", dir="/dev/shm")
        try:
            try:
                files = run_tables(case, chrom_of, d)
            except Exception as e:
                import traceback
                return [("counter-crash:%s" % type(e).__name__, traceback.format_exc()[-600:])]
        finally:
            shutil.rmtree(d, ignore_errors=True)
        results.append(files)
        un = files.get("SMP.%s_counts.tsv" % kind)
        if un is None:
            problems.append(("missing", "ungrouped table missing"))
            continue
        vals, stats = parse_ungrouped(un)
        nrows = len([l for l in un.split("\n") if l and not l.startswith(("#", "__"))])
        if nrows != len(vals):
            problems.append(("duplicate-rows", "ungrouped table has %d rows for %d features" % (nrows, len(vals))))
        if not un.startswith("#feature_id"):
            problems.append(("header", "merged ungrouped table does not start with its header: %r" % un[:40]))
        if un.count("#feature_id") != 1:
            problems.append(("header", "merged ungrouped table has %d header lines" % un.count("#feature_id")))
        for f in sorted(set(feats) | set(model)):
            exp = model.get(f, 0.0)
            if f not in vals:
                if kind != "model" or (exp > 0.005 and f in confirmed):
                    problems.append(("row-missing", "%s: feature %s has no row (documented sum %.3f)" % (kind, f, exp)))
                continue
            v = vals[f]
            if abs(v) < 1e-9:
                if f in confirmed and exp > 0.005:
                    problems.append(("zeroed", "%s: confirmed feature %s is zero, documented sum %.3f" % (kind, f, exp)))
                continue
            if abs(v - exp) > 0.0051 + 1e-6 * len(case["ops"]):
                problems.append(("value", "%s/%s: feature %s = %.2f, documented weighting gives %.4f" % (kind, strat, f, v, exp)))
        for f in vals:
            if f not in model and f not in feats and vals[f] != 0:
                problems.append(("value", "feature %s = %.2f without any operation" % (f, vals[f])))
        want_stats = {"__ambiguous": n_amb, "__no_feature": n_nof,
                      "__not_aligned": case.get("unaligned_total", 0) if case.get("unaligned_total", 0) > 0 else n_una}
        for k, v in want_stats.items():
            if int(stats.get(k, -1)) != v:
                problems.append(("stats", "%s = %s, operations give %d" % (k, stats.get(k), v)))
        tp = files.get("SMP.%s_tpm.tsv" % kind)
        if tp is not None and case.get("norm", "simple") == "simple":
            tv, _ = parse_ungrouped(tp)
            tot = sum(vals.values())
            if tot > 0:
                for f, v in vals.items():
                    if f in tv and abs(tv[f] - v * 1e6 / tot) > 1e-3 * max(1.0, tv[f]) + 1e-3:
                        problems.append(("tpm", "TPM of %s = %s, count %.2f of total %.2f" % (f, tv[f], v, tot)))
                        break
                s = sum(x for f, x in tv.items() if not f.startswith("__"))
                if abs(s - 1e6) > 1.0:
                    problems.append(("tpm", "TPM column sums to %.3f" % s))
        if groups:
            mx = files.get("SMP.%s_grouped_counts.tsv" % kind, "")
            ln = files.get("SMP.%s_grouped_counts_linear.tsv" % kind, "")
            triples_m, triples_l = {}, {}
            fmt = case["format"]
            if fmt in ("matrix", "both"):
                lines = [l for l in mx.split("\n") if l]
                if not lines or not lines[0].startswith("#feature_id"):
                    problems.append(("header", "grouped matrix does not start with its header: %r" % mx[:40]))
                else:
                    hdr = lines[0].split("\t")[1:]
                    if hdr != groups:
                        problems.append(("groups", "matrix columns %s, groups of the reads %s" % (hdr, groups)))
                    for l in lines[1:]:
                        if l.startswith("#"):
                            problems.append(("header", "grouped matrix has a second header line"))
                            continue
                        c = l.split("\t")
                        if len(c) - 1 != len(hdr):
                            problems.append(("ragged", "row %s has %d values for %d groups" % (c[0], len(c) - 1, len(hdr))))
                            continue
                        for g, v in zip(hdr, c[1:]):
                            if float(v) != 0:
                                triples_m[(c[0], g)] = triples_m.get((c[0], g), 0.0) + float(v)
            if fmt in ("linear", "both"):
                lines = [l for l in ln.split("\n") if l]
                if not lines or not lines[0].startswith("#feature_id"):
                    problems.append(("header", "linear table does not start with its header: %r" % ln[:40]))
                for l in lines[1:]:
                    if l.startswith("#"):
                        problems.append(("header", "linear table has a second header line"))
                        continue
                    c = l.split("\t")
                    if float(c[2]) != 0:
                        triples_l[(c[0], c[1])] = triples_l.get((c[0], c[1]), 0.0) + float(c[2])
            if fmt == "both":
                for k in sorted(set(triples_m) | set(triples_l)):
                    if abs(triples_m.get(k, 0.0) - triples_l.get(k, 0.0)) > 1e-9:
                        problems.append(("matrix-vs-linear", "%s: matrix %.2f, linear %.2f" % (k, triples_m.get(k, 0.0), triples_l.get(k, 0.0))))
                        break
            tr = triples_m if fmt in ("matrix", "both") else triples_l
            per = {}
            for (f, g), v in tr.items():
                per[f] = per.get(f, 0.0) + v
                exp = gmodel.get((f, g), 0.0)
                if abs(v - exp) > 0.0051 + 1e-6 * len(case["ops"]):
                    problems.append(("group-value", "(%s, %s) = %.2f, reads of that group give %.4f" % (f, g, v, exp)))
            all_grouped_ops = all(op.get("g") is not None for op in case["ops"] if op["t"] == "count")
            if all_grouped_ops:
                for f, v in vals.items():
                    if abs(per.get(f, 0.0) - v) > 0.0051 * (1 + len(groups)):
                        problems.append(("group-sum", "groups of %s sum to %.2f, ungrouped value %.2f" % (f, per.get(f, 0.0), v)))
        if problems:
            problems = [(k, "[layout %d of %d] %s" % (li + 1, len(layouts), t)) for k, t in problems]
            break
    if not problems and len(results) == 2:
        for name in results[0]:
            a = sorted(l for l in results[0][name].split("\n") if l)
            b = sorted(l for l in results[1].get(name, "").split("\n") if l)
            if a != b:
                diff = [l for l in a if l not in b][:2] + [l for l in b if l not in a][:2]
                problems.append(("partition", "%s differs between one chromosome and %d chromosomes: %s" % (name, case.get("n_chr"), diff)))
                break
    return problems


def strategy():
    from hypothesis import strategies as st

    @st.composite
    def case(draw):
        kind = draw(st.sampled_from(["gene", "transcript", "model"]))
        nf = draw(st.integers(1, 7))
        feats = ["%s%d" % (draw(st.sampled_from(["G", "zg", "novel_gene_c_", "si:dkey-", "T.x"])), i) for i in range(nf)]
        nloc = draw(st.integers(1, 3))
        locus = {f: i % nloc for i, f in enumerate(feats)}
        ng = draw(st.sampled_from([0, 1, 2, 3, 12]))
        gnames = draw(st.sampled_from([["grp0", "grp1", "grp2"], ["NA", "G1", "g2"], ["9x", "10x", "NA"], ["Zeta", "alpha", "NA"]]))
        groups = ([gnames[i % 3] + ("" if i < 3 else str(i)) for i in range(ng)]) if ng else []
        ops = []
        for _ in range(draw(st.integers(0, 14))):
            t = draw(st.sampled_from(["count"] * 6 + ["unassigned", "unaligned"]))
            op = {"t": t}
            if t == "count":
                k = draw(st.sampled_from([1, 1, 1, 2, 3]))
                lc = draw(st.integers(0, nloc - 1))
                pool = [f for f in feats if locus[f] == lc] or feats[:1]
                op["f"] = sorted(set(draw(st.sampled_from(pool)) for _ in range(k)))
                if kind != "model":
                    op["a"] = draw(st.sampled_from(ATYPES[:6]))
                    if op["a"] in ("unique", "unique_minor_difference", "inconsistent", "inconsistent_non_intronic"):
                        op["f"] = op["f"][:1]
                    if op["a"] in ("ambiguous", "inconsistent_ambiguous") and len(op["f"]) == 1 and len(pool) > 1:
                        op["f"] = sorted(set(op["f"] + [pool[(pool.index(op["f"][0]) + 1) % len(pool)]]))
                    op["confirm"] = draw(st.booleans())
                    op["m"] = draw(st.sampled_from([1, 1, 2, 3]))
            else:
                op["f"] = []
                op["c"] = draw(st.integers(0, 3))
                if t == "unassigned" and kind != "model":
                    op["a"] = draw(st.sampled_from(["noninformative", "intergenic"]))
            if groups and t != "unaligned":
                op["g"] = draw(st.sampled_from(groups))
            ops.append(op)
        c = {"kind": kind, "strategy": draw(st.sampled_from(STRATS)), "format": draw(st.sampled_from(["both", "both", "matrix", "linear"])),
             "features": feats, "locus": locus, "ops": ops, "n_chr": draw(st.integers(1, 4)), "deal": draw(st.integers(0, 5)),
             "unaligned_total": draw(st.sampled_from([0, 0, 3])), "norm": "simple"}
        if kind == "model":
            c["confirmed"] = [f for f in feats if draw(st.integers(0, 4)) > 0]
        return c
    return case()


def run(args):
    from hypothesis import given, settings, seed, HealthCheck, Phase
    tolerated = set(args.get("tolerated") or [])
    state = {"examples": 0, "distinct": set(), "fail": None, "samples": [], "grouped": 0, "multi_chr": 0}

    @settings(max_examples=args.get("max_examples", 150), database=None, deadline=None, suppress_health_check=list(HealthCheck),
              report_multiple_bugs=False, phases=[Phase.generate, Phase.shrink])
    @seed(args.get("seed", 0))
    @given(strategy())
    def prop(case):
        import json
        if args.get("only_kind") and case["kind"] not in args["only_kind"]:
            return
        state["examples"] += 1
        state["distinct"].add(json.dumps(case, sort_keys=True))
        if any(op.get("g") is not None for op in case["ops"]):
            state["grouped"] += 1
        if case["n_chr"] > 1:
            state["multi_chr"] += 1
        if len(state["samples"]) < 2:
            state["samples"].append(case)
        probs = [p for p in judge(case) if p[0] not in tolerated]
        if probs:
            state["fail"] = {"case": case, "problems": probs}
            raise AssertionError(probs[0][1])
    try:
        prop()
    except AssertionError:
        pass
    except Exception:
        if state["fail"] is None:
            import traceback
            return {"error": traceback.format_exc()[-1500:]}
    return {"examples": state["examples"], "distinct": len(state["distinct"]), "fail": state["fail"], "samples": state["samples"],
            "cases_with_read_groups": state["grouped"], "cases_dealt_onto_several_chromosomes": state["multi_chr"]}


def replay_case(args):
    return {"problems": judge(args["case"])}
