"""C12 machine: the position-ordered merge of several BAM iterators (BAMOnlineMerger) must deliver exactly the records of
the files, in non-decreasing start order, for every way of dealing the sorted record stream into 1..5 files."""
import os
import shutil
import tempfile


def judge(case):
    """case: {"records": [[start, length], ...] (sorted by start), "assign": [file index per record], "nfiles": n}"""
    import pysam
    from src.alignment_processor import BAMOnlineMerger
    problems = []
    d = tempfile.mkdtemp(prefix="c12m_", dir="/dev/shm")
    try:
        header = {"HD": {"VN": "1.6", "SO": "coordinate"}, "SQ": [{"SN": "chrT", "LN": 100000}]}
        n = case["nfiles"]
        paths = []
        for fi in range(n):
            p = os.path.join(d, "f%d.bam" % fi)
            with pysam.AlignmentFile(p, "wb", header=header) as out:
                for ri, ((st, ln), f) in enumerate(zip(case["records"], case["assign"])):
                    if f % n != fi:
                        continue
                    a = pysam.AlignedSegment(out.header)
                    a.query_name = "q%d" % ri
                    a.flag = 0
                    a.reference_id = 0
                    a.reference_start = st
                    a.mapping_quality = 60
                    a.cigartuples = [(0, ln)]
                    a.query_sequence = "A" * ln
                    out.write(a)
            pysam.index(p)
            paths.append(p)
        pairs = [(pysam.AlignmentFile(p, "rb"), p) for p in paths]
        got = []
        try:
            m = BAMOnlineMerger(pairs, "chrT", 0, 100000, multiple_iterators=case.get("multi", False))
            for bi, al in m.get():
                got.append((al.reference_start, al.reference_end, al.query_name))
        except Exception as e:
            problems.append(("merge-crash:%s" % type(e).__name__, "%r" % (e,)))
            return problems
        finally:
            for b, _ in pairs:
                b.close()
        want = sorted((st, st + ln, "q%d" % ri) for ri, (st, ln) in enumerate(case["records"]))
        if sorted(got) != want:
            problems.append(("merge-multiset", "merged stream has %d records, files hold %d" % (len(got), len(want))))
        starts = [g[0] for g in got]
        for i in range(1, len(starts)):
            if starts[i] < starts[i - 1]:
                problems.append(("merge-order", "record %s (start %d) delivered after start %d: merged stream is not position ordered "
                                 "(files=%d, assignment=%s)" % (got[i][2], starts[i], starts[i - 1], n, case["assign"])))
                break
    finally:
        shutil.rmtree(d, ignore_errors=True)
    return problems


def strategy():
    from hypothesis import strategies as st

    @st.composite
    def case(draw):
        k = draw(st.integers(2, 14))
        pos = 100
        recs = []
        for _ in range(k):
            pos += draw(st.sampled_from([0, 1, 5, 40, 300, 2000]))
            recs.append([pos, draw(st.sampled_from([30, 120, 900]))])
        n = draw(st.integers(1, 5))
        mode = draw(st.sampled_from(["random", "chunks", "tiny"]))
        if mode == "random" or n == 1:
            assign = [draw(st.integers(0, n - 1)) for _ in recs]
        elif mode == "chunks":
            cuts = sorted(draw(st.lists(st.integers(0, k), min_size=n - 1, max_size=n - 1)))
            assign = [sum(1 for c in cuts if i >= c) for i in range(k)]
        else:
            assign = [n - 1] + [draw(st.integers(0, max(0, n - 2))) for _ in recs[1:]]
        return {"records": recs, "assign": assign, "nfiles": n, "multi": draw(st.booleans())}
    return case()


def run(args):
    from hypothesis import given, settings, seed, HealthCheck, Phase
    tolerated = set(args.get("tolerated") or [])
    state = {"examples": 0, "distinct": set(), "fail": None, "samples": [], "exhausted_early": 0}

    @settings(max_examples=args.get("max_examples", 150), database=None, deadline=None, suppress_health_check=list(HealthCheck),
              report_multiple_bugs=False, phases=[Phase.generate, Phase.shrink])
    @seed(args.get("seed", 0))
    @given(strategy())
    def prop(case):
        import json
        state["examples"] += 1
        state["distinct"].add(json.dumps(case, sort_keys=True))
        n = case["nfiles"]
        last = {}
        for i, f in enumerate(case["assign"]):
            last[f % n] = i
        if n >= 3 and len(last) >= 3 and min(last.values()) < len(case["assign"]) - 3:
            state["exhausted_early"] += 1
        if len(state["samples"]) < 2:
            state["samples"].append(case)
        probs = [p for p in judge(case) if p[0] not in tolerated]
        if probs:
            state["fail"] = {"case": case, "problems": probs}
            raise AssertionError(probs[0][1])
    try:
        prop()
    except AssertionError:
        pass
    except Exception:
        if state["fail"] is None:
            import traceback
            return {"error": traceback.format_exc()[-1500:]}
    return {"examples": state["examples"], "distinct": len(state["distinct"]), "fail": state["fail"], "samples": state["samples"],
            "file_exhausted_early_with_3+_files": state["exhausted_early"]}


def replay_case(args):
    return {"problems": judge(args["case"])}
