"""C15 machine: the intermediate assignment stream (gene-info and read-assignment records) written by the real
TmpFileAssignmentPrinter and read back by BOTH real readers, against a list model.  Also the *_multimappers_* framing and
the _info file.  Hypothesis RuleBasedStateMachine, seeded, outside pytest."""
import io
import json
import os
import tempfile

QUANT = 1 << 20


def _mk_event(e):
    from src.isoform_assignment import MatchEvent, MatchEventSubtype
    return MatchEvent(MatchEventSubtype[e["type"]], tuple(e["iso_region"]), tuple(e["read_region"]), e["info"])


def _mk_match(m):
    from src.isoform_assignment import IsoformMatch, MatchClassification
    im = IsoformMatch(MatchClassification[m["cls"]], m["gene"], m["transcript"], None, m["strand"], m["penalty"])
    im.match_subclassifications = [_mk_event(e) for e in m["events"]]
    return im


def make_read(r):
    from src.isoform_assignment import ReadAssignment, ReadAssignmentType
    from src.polya_finder import PolyAInfo
    ra = ReadAssignment(r["read_id"], ReadAssignmentType[r["type"]], [_mk_match(m) for m in r["matches"]])
    ra.assignment_id = r["aid"]
    ra.gene_assignment_type = ReadAssignmentType[r["gtype"]]
    ra.genomic_region = tuple(r["region"])
    ra.exons = [tuple(e) for e in r["exons"]]
    ra.corrected_exons = [tuple(e) for e in r["corrected"]]
    ra.multimapper, ra.polyA_found, ra.cage_found = r["flags"]
    ra.polya_info = PolyAInfo(*r["polya"])
    ra.read_group = r["group"]
    ra.mapped_strand = r["mstrand"]
    ra.strand = r["strand"]
    ra.chr_id = r["chr"]
    ra.mapping_quality = r["mapq"]
    ra.additional_info = {k: (tuple(v) if isinstance(v, list) else v) for k, v in r["info"].items()}
    ra.additional_attributes = dict(r["attrs"])
    ra.introns_match = r["introns_match"]
    ra.exon_gene_profile = list(r["exon_profile"])
    ra.intron_gene_profile = list(r["intron_profile"])
    return ra


def read_fields(ra):
    """plain-data view of a (real) ReadAssignment for comparison with the model"""
    def ev(e):
        return {"type": e.event_type.name, "iso_region": list(e.isoform_region), "read_region": list(e.read_region), "info": e.event_info}

    def mt(m):
        return {"cls": m.match_classification.name, "gene": m.assigned_gene, "transcript": m.assigned_transcript,
                "strand": m.transcript_strand, "penalty": m.penalty_score, "events": [ev(e) for e in m.match_subclassifications]}
    return {"read_id": ra.read_id, "type": ra.assignment_type.name, "gtype": ra.gene_assignment_type.name, "aid": ra.assignment_id,
            "region": list(ra.genomic_region), "exons": [list(e) for e in ra.exons], "corrected": [list(e) for e in ra.corrected_exons],
            "flags": [bool(ra.multimapper), bool(ra.polyA_found), bool(ra.cage_found)],
            "polya": [ra.polya_info.external_polya_pos, ra.polya_info.external_polyt_pos, ra.polya_info.internal_polya_pos,
                      ra.polya_info.internal_polyt_pos],
            "group": ra.read_group, "mstrand": ra.mapped_strand, "strand": ra.strand, "chr": ra.chr_id, "mapq": ra.mapping_quality,
            "info": {k: (list(v) if isinstance(v, tuple) else v) for k, v in ra.additional_info.items()},
            "attrs": dict(ra.additional_attributes), "introns_match": bool(ra.introns_match),
            "exon_profile": list(ra.exon_gene_profile), "intron_profile": list(ra.intron_gene_profile),
            "matches": [mt(m) for m in ra.isoform_matches]}


def basic_projection_model(r):
    pen = 0.0
    for m in r["matches"]:
        pen = min(pen, r["matches"][0]["penalty"])
    return {"aid": r["aid"], "read_id": r["read_id"], "chr": r["chr"], "start": r["exons"][0][0], "end": r["exons"][-1][1],
            "region": list(r["region"]), "multimapper": r["flags"][0], "polya": r["flags"][1], "type": r["type"], "gtype": r["gtype"],
            "penalty": pen, "genes": sorted(set(m["gene"] for m in r["matches"] if m["gene"])),
            "isoforms": sorted(set(m["transcript"] for m in r["matches"] if m["transcript"]))}


def basic_fields(b):
    return {"aid": b.assignment_id, "read_id": b.read_id, "chr": b.chr_id, "start": b.start, "end": b.end,
            "region": list(b.genomic_region), "multimapper": bool(b.multimapper), "polya": bool(b.polyA_found),
            "type": b.assignment_type.name, "gtype": b.gene_assignment_type.name, "penalty": b.penalty_score,
            "genes": sorted(b.genes), "isoforms": sorted(b.isoforms)}


def first_diff(a, b, path=""):
    if type(a) != type(b) and not (isinstance(a, (int, float)) and isinstance(b, (int, float))):
        return "%s: %r != %r" % (path, a, b)
    if isinstance(a, dict):
        for k in sorted(set(a) | set(b)):
            if k not in a or k not in b:
                return "%s.%s: missing on one side" % (path, k)
            d = first_diff(a[k], b[k], path + "." + k)
            if d:
                return d
        return None
    if isinstance(a, list):
        if len(a) != len(b):
            return "%s: length %d != %d" % (path, len(a), len(b))
        for i, (x, y) in enumerate(zip(a, b)):
            d = first_diff(x, y, "%s[%d]" % (path, i))
            if d:
                return d
        return None
    if isinstance(a, float) or isinstance(b, float):
        return None if abs(a - b) <= 1.0 / QUANT else "%s: %r != %r" % (path, a, b)
    return None if a == b else "%s: %r != %r" % (path, a, b)


def kind_of(diff):
    import re
    p = diff.split(":")[0]
    return re.sub(r"\[\d+\]", "[]", p)


class _Timeout(Exception):
    pass


class watchdog:
    """a corrupted stream can send a reader into a 2^32-iteration loop: bound every reader call"""

    def __init__(self, secs=4.0):
        self.secs = secs

    def __enter__(self):
        import signal

        def onalarm(sig, frm):
            raise _Timeout()
        self.old = signal.signal(signal.SIGALRM, onalarm)
        signal.setitimer(signal.ITIMER_REAL, self.secs)

    def __exit__(self, *a):
        import signal
        signal.setitimer(signal.ITIMER_REAL, 0)
        signal.signal(signal.SIGALRM, self.old)
        return False


def judge_stream(items, tmpdir=None):
    """items: [("gene", g) | ("read", r)] with the stream invariant gene-first.  returns list of (kind, text)"""
    from src.assignment_io import TmpFileAssignmentPrinter, NormalTmpFileAssignmentLoader, QuickTmpFileAssignmentLoader
    from src.gene_info import GeneInfo
    from src.isoform_assignment import BasicReadAssignment
    problems = []
    fd, path = tempfile.mkstemp(prefix="c15_", dir=tmpdir or "/dev/shm")
    os.close(fd)
    try:
        pr = TmpFileAssignmentPrinter(path, None)
        objs = []
        try:
            for kind, d in items:
                if kind == "gene":
                    gi = GeneInfo.from_region(d["chr"], d["start"], d["end"], delta=d["delta"])
                    pr.add_gene_info(gi)
                else:
                    ra = make_read(d)
                    objs.append(ra)
                    pr.add_read_info(ra)
        except Exception as e:
            del pr
            return [("write-crash:%s" % type(e).__name__, "writer raised %s: %r" % (type(e).__name__, e))]
        del pr
        # ---- full reader
        got = []
        try:
          with watchdog():
            ld = NormalTmpFileAssignmentLoader(path, None, None)
            while ld.has_next():
                if ld.is_gene_info():
                    g = ld.get_object()
                    got.append(("gene", {"chr": g.chr_id, "start": g.start, "end": g.end, "delta": g.delta}))
                elif ld.is_read_assignment():
                    got.append(("read", read_fields(ld.get_object())))
                else:
                    problems.append(("full-misaligned", "full reader met record id %r" % ld.current_id))
                    break
            del ld
        except _Timeout:
            problems.append(("full-hang", "full reader does not terminate (misaligned stream) after %d records" % len(got)))
        except Exception as e:
            problems.append(("full-crash:%s" % type(e).__name__, "full reader raised %s: %r after %d records" % (type(e).__name__, e, len(got))))
        if not problems:
            if len(got) != len(items):
                problems.append(("full-count", "full reader returned %d records, %d written" % (len(got), len(items))))
            else:
                for i, ((k1, a), (k2, b)) in enumerate(zip(items, got)):
                    if k1 != k2:
                        problems.append(("full-kind", "record %d: wrote %s, read %s" % (i, k1, k2)))
                        break
                    d = first_diff(a, b)
                    if d:
                        problems.append(("full-field:" + kind_of(d), "record %d (%s): %s" % (i, k1, d)))
                        break
        # ---- abridged reader: byte alignment + projection
        gotq = []
        try:
          with watchdog():
            lq = QuickTmpFileAssignmentLoader(path)
            while lq.has_next():
                if lq.is_gene_info():
                    lq.get_object()
                    gotq.append(("gene", None))
                elif lq.is_read_assignment():
                    gotq.append(("read", basic_fields(lq.get_object())))
                else:
                    problems.append(("quick-misaligned", "abridged reader met record id %r after %d records" % (lq.current_id, len(gotq))))
                    break
            del lq
        except _Timeout:
            problems.append(("quick-hang", "abridged reader does not terminate (misaligned stream) after %d records" % len(gotq)))
        except Exception as e:
            problems.append(("quick-crash:%s" % type(e).__name__, "abridged reader raised %s: %r after %d records" % (type(e).__name__, e, len(gotq))))
        if not any(p[0].startswith("quick") for p in problems):
            if len(gotq) != len(items):
                problems.append(("quick-count", "abridged reader returned %d records, %d written" % (len(gotq), len(items))))
            else:
                for i, ((k1, a), (k2, b)) in enumerate(zip(items, gotq)):
                    if k1 != k2:
                        problems.append(("quick-kind", "record %d: wrote %s, abridged reader saw %s" % (i, k1, k2)))
                        break
                    if k1 == "read":
                        d = first_diff(basic_projection_model(a), b)
                        if d:
                            problems.append(("quick-field:" + kind_of(d), "record %d: %s" % (i, d)))
                            break
        # ---- object path (high memory) gives the same compact record as the stream path
        ri = 0
        for (k, a), q in zip(items, gotq if len(gotq) == len(items) else []):
            if k != "read":
                continue
            try:
                b = basic_fields(BasicReadAssignment(objs[ri]))
            except Exception as e:
                problems.append(("object-path-crash", "%s: %r" % (type(e).__name__, e)))
                break
            ri += 1
            d = first_diff(b, q[1]) if q[1] else None
            if d:
                problems.append(("paths-differ:" + kind_of(d), "compact record from object vs from stream: %s" % d))
                break
            # --high_memory with several threads: the compact objects travel from the pool workers to the parent by pickle
            import pickle
            try:
                b2 = basic_fields(pickle.loads(pickle.dumps(BasicReadAssignment(objs[ri - 1]))))
            except Exception as e:
                problems.append(("pickle-path-crash", "%s: %r" % (type(e).__name__, e)))
                break
            d = first_diff(b, b2)
            if d:
                problems.append(("pickle-differs:" + kind_of(d), "compact record before vs after the pickle round trip of the pool: %s" % d))
                break
    finally:
        try:
            os.remove(path)
        except OSError:
            pass
    return problems


def judge_multimappers(lists, info):
    """lists: [[basic rec dict, ...], ...] as written by resolve_multimappers; info: (total, polya, groups)"""
    from src.serialization import write_list, write_int, read_int, read_list, read_string, write_string, TERMINATION_INT
    from src.isoform_assignment import BasicReadAssignment
    from .c08 import make_record
    problems = []
    buf = io.BytesIO()
    try:
        aid = 0
        for l in lists:
            objs = []
            for rec in l:
                aid += 1
                objs.append(make_record(rec, aid))
            write_list(objs, buf, BasicReadAssignment.serialize)
        write_int(TERMINATION_INT, buf)
        buf.seek(0)
        got = []
        n = read_int(buf)
        while n != TERMINATION_INT:
            got.append([BasicReadAssignment.deserialize(buf) for _ in range(n)])
            n = read_int(buf)
        if [len(x) for x in got] != [len(x) for x in lists]:
            problems.append(("mm-framing", "list sizes %s read back as %s" % ([len(x) for x in lists], [len(x) for x in got])))
        else:
            for l, g in zip(lists, got):
                for rec, o in zip(l, g):
                    want = {"chr": rec["chr"], "start": rec["start"], "end": rec["end"], "region": list(rec["region"]),
                            "multimapper": bool(rec["secondary"]), "polya": bool(rec["polya"]), "type": rec["type"],
                            "penalty": float(rec["penalty"]), "genes": sorted(rec["genes"]), "isoforms": sorted(rec["isoforms"])}
                    have = basic_fields(o)
                    have = {k: have[k] for k in want}
                    d = first_diff(want, have)
                    if d:
                        problems.append(("mm-field:" + kind_of(d), d))
                        return problems
        b2 = io.BytesIO()
        write_int(info[0], b2)
        write_int(info[1], b2)
        write_list(list(info[2]), b2, write_string)
        b2.seek(0)
        back = (read_int(b2), read_int(b2), read_list(b2, read_string))
        if back != (info[0], info[1], list(info[2])):
            problems.append(("info-file", "_info round trip: %r != %r" % (back, info)))
    except Exception as e:
        problems.append(("mm-crash:%s" % type(e).__name__, "%s: %r" % (type(e).__name__, e)))
    return problems


# ------------------------------------------------------------------------------------------------ strategies
def strategies():
    from hypothesis import strategies as st
    import sys
    from src.isoform_assignment import MatchEventSubtype, MatchClassification, ReadAssignmentType, SupplementaryMatchConstants as C
    ascii_id = st.text(alphabet="abcXYZ0189_-:/.|", min_size=0, max_size=12)
    names = st.one_of(ascii_id, st.sampled_from(["", "ENSG00000123.4", "géne", "漢字", "x" * 300, "read/1;a=b"]))
    pos = st.one_of(st.integers(1, 3000), st.sampled_from([1, (1 << 31) - 1, 250000000]))
    sentinel = st.sampled_from([C.extra_left_mod_position, C.extra_right_mod_position, C.undefined_position, C.absent_position, 0, 7, 123456])
    region = st.tuples(sentinel, sentinel).map(list)
    signed = st.one_of(st.integers(-50, 50), st.sampled_from([-(1 << 31) + 1, (1 << 31) - 1, 0, -1]))

    @st.composite
    def exons(draw, allow_empty=False):
        n = draw(st.integers(0 if allow_empty else 1, 4))
        out, p = [], draw(st.integers(1, 1000))
        for _ in range(n):
            ln = draw(st.integers(0, 300))
            out.append([p, p + ln])
            p += ln + draw(st.integers(1, 500))
        return out
    event = st.fixed_dictionaries({"type": st.sampled_from([e.name for e in MatchEventSubtype]), "iso_region": region,
                                   "read_region": region, "info": signed})
    match = st.fixed_dictionaries({"cls": st.sampled_from([e.name for e in MatchClassification]),
                                   "gene": st.one_of(st.none(), names), "transcript": st.one_of(st.none(), names),
                                   "strand": st.sampled_from(["+", "-", "."]),
                                   "penalty": st.integers(0, 5 * QUANT).map(lambda k: k / QUANT),
                                   "events": st.lists(event, max_size=3)})
    value = st.one_of(signed, names, st.tuples(signed, signed).map(list))
    read = st.fixed_dictionaries({
        "read_id": names, "type": st.sampled_from([e.name for e in ReadAssignmentType]),
        "gtype": st.sampled_from([e.name for e in ReadAssignmentType]), "aid": st.integers(0, (1 << 32) - 2),
        "region": st.tuples(pos, pos).map(list), "exons": exons(), "corrected": exons(),
        "flags": st.tuples(st.booleans(), st.booleans(), st.booleans()).map(list),
        "polya": st.tuples(*[st.one_of(st.just(-1), st.integers(0, 1 << 30))] * 4).map(list),
        "group": names, "mstrand": st.sampled_from(["+", "-", "."]), "strand": st.sampled_from(["+", "-", "."]),
        "chr": names, "mapq": st.integers(0, 255), "info": st.dictionaries(ascii_id, value, max_size=3),
        "attrs": st.dictionaries(ascii_id, names, max_size=2), "introns_match": st.booleans(),
        "exon_profile": st.lists(st.sampled_from([-2, -1, 0, 1]), max_size=6),
        "intron_profile": st.lists(st.sampled_from([-2, -1, 0, 1]), max_size=6),
        "matches": st.lists(match, max_size=3)})
    gene = st.fixed_dictionaries({"chr": names, "start": pos, "end": pos, "delta": st.integers(0, 30)})
    return gene, read


def run(args):
    import sys
    from hypothesis import settings, seed, HealthCheck, Phase, strategies as st
    from hypothesis.stateful import RuleBasedStateMachine, rule, precondition, run_state_machine_as_test, invariant
    from .c08 import strategy as c08_strategy
    tolerated = set(args.get("tolerated") or [])
    gene_s, read_s = strategies()
    state = {"examples": 0, "records": 0, "fail": None, "known": {}, "samples": [], "distinct": set(), "steps": 0}

    def handle(items_or_payload, probs, what):
        unl = [p for p in probs if p[0] not in tolerated]
        for p in probs:
            if p[0] in tolerated:
                k = state["known"].setdefault(p[0], {"count": 0, "example": None})
                k["count"] += 1
                size = len(json.dumps(items_or_payload))
                if k["example"] is None or size < k["example"]["size"]:
                    k["example"] = {"payload": items_or_payload, "text": p[1], "size": size, "what": what}
        if unl:
            state["fail"] = {"payload": items_or_payload, "problems": unl, "what": what}
            raise AssertionError(unl[0][1])

    class Stream(RuleBasedStateMachine):
        def __init__(self):
            super().__init__()
            self.items = []
            state["examples"] += 1

        @rule(g=gene_s)
        def add_gene_info(self, g):
            self.items.append(("gene", g))
            state["steps"] += 1

        @precondition(lambda self: self.items)
        @rule(r=read_s)
        def add_read(self, r):
            self.items.append(("read", r))
            state["records"] += 1
            state["steps"] += 1

        @precondition(lambda self: len(self.items) >= 2)
        @rule()
        def close_and_read_back(self):
            items = [[k, d] for k, d in self.items]
            state["distinct"].add(json.dumps(items, sort_keys=True))
            if len(state["samples"]) < 2 and any(k == "read" for k, _ in items):
                state["samples"].append(items[:3])
            handle(items, judge_stream(self.items), "stream")

        @rule(lists=st.lists(st.lists(c08_strategy().flatmap(lambda recs: st.sampled_from(recs)), min_size=1, max_size=3), max_size=3),
              info=st.tuples(st.integers(0, 1 << 30), st.integers(0, 1 << 30),
                             st.lists(st.sampled_from(["NA", "grp1", "a b", "é"]), max_size=3)).map(list))
        def multimapper_files(self, lists, info):
            handle({"lists": lists, "info": info}, judge_multimappers(lists, info), "multimappers")

    try:
        run_state_machine_as_test(seed(args.get("seed", 0))(Stream),
                                  settings=settings(max_examples=args.get("max_examples", 100), stateful_step_count=12, database=None,
                                                    deadline=None, report_multiple_bugs=False, suppress_health_check=list(HealthCheck),
                                                    phases=[Phase.generate, Phase.shrink]))
    except AssertionError:
        pass
    except Exception as e:
        if state["fail"] is None:
            import traceback
            return {"error": traceback.format_exc()[-1500:]}
    for k in state["known"].values():
        if k["example"]:
            k["example"].pop("size", None)
    return {"examples": state["examples"], "records": state["records"], "steps": state["steps"], "distinct": len(state["distinct"]),
            "fail": state["fail"], "known": state["known"], "samples": state["samples"]}


def replay_case(args):
    import sys
    if args.get("what") == "multimappers":
        return {"problems": judge_multimappers(args["payload"]["lists"], args["payload"]["info"])}
    return {"problems": judge_stream([(k, d) for k, d in args["payload"]])}
