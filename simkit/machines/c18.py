"""C18 machine: canonical-site answers and strand detection must be pure functions of the reference sequence,
independent of the sequence of earlier queries against the same locus (per-locus memo, StrandDetector.strand_dict)."""
import json

FWD = {("GT", "AG"), ("GC", "AG"), ("AT", "AC")}
REV = {("CT", "AC"), ("CT", "GC"), ("GT", "AT")}
PAIRS = [("GT", "AG"), ("GC", "AG"), ("AT", "AC"), ("CT", "AC"), ("CT", "GC"), ("GT", "AT"), ("AA", "TT"), ("GT", "AC"), ("CT", "AG")]
# fixed geometry, contents are drawn; (200, 290) starts where (101, 200) ends and (420, 480) where (301, 420) ends
INTRONS = [(101, 200), (301, 420), (501, 640), (701, 799), (151, 420), (200, 290), (420, 480)]


def build_sequence(pair_idx, filler):
    seq = list((filler * 1000)[:900])
    for (a, b), pi in zip(INTRONS, pair_idx):
        l, r = PAIRS[pi]
        seq[a - 1:a + 1] = list(l)
        seq[b - 2:b] = list(r)
    return "".join(seq)


def model_canonical(seq, introns, strand):
    if not introns:
        return "Unspliced"
    s = FWD if strand == "+" else REV      # IsoQuant treats every non-'+' strand with the reverse table
    return str(all((seq[a - 1:a + 1], seq[b - 2:b]) in s for a, b in introns))


def model_strand(seq, introns, polya, polyt):
    cf = cr = 0
    for a, b in introns:
        p = (seq[a - 1:a + 1], seq[b - 2:b])
        f, r = p in FWD, p in REV
        if f != r:
            cf += f
            cr += r
    if cf == cr:
        if polya and not polyt:
            return "+"
        if polyt and not polya:
            return "-"
        return "."
    return "+" if cf > cr else "-"


def judge(case):
    """case: {"pairs": [...], "filler": str, "queries": [{"kind": "read"|"model"|"strand", "introns": [idx..], "strand": s, ...}]}"""
    from src.assignment_io import IOSupport
    from src.gene_info import GeneInfo, StrandDetector, TranscriptModel, TranscriptModelType
    problems = []
    seq = build_sequence(case["pairs"], case["filler"])
    # GeneInfo.from_region keeps reference_region = chr_record[start-1 : end+1]
    gi = GeneInfo.from_region("chrT", 50, 850, chr_record=seq)
    io = IOSupport(None)
    det = StrandDetector(seq)
    for qi, q in enumerate(case["queries"]):
        introns = sorted(set(INTRONS[i] for i in q["introns"]))
        # keep intron lists non-overlapping as in a real alignment
        clean = []
        for it in introns:
            if not clean or it[0] > clean[-1][1]:
                clean.append(it)
        introns = clean
        try:
            if q["kind"] == "read":
                got = "Unspliced" if not introns else str(io.check_sites_are_canonical(introns, gi, q["strand"]))
                want = model_canonical(seq, introns, q["strand"])
                if got != want:
                    problems.append(("canonical-read", "query %d: read introns %s strand %s -> %s, sequence says %s" % (qi, introns, q["strand"], got, want)))
                    break
            elif q["kind"] == "model":
                exons = []
                p = 60
                for a, b in introns:
                    exons.append((p, a - 1))
                    p = b + 1
                exons.append((p, 840))
                m = TranscriptModel("chrT", q["strand"], "tx%d" % qi, "gene1", exons, TranscriptModelType.novel_not_in_catalog)
                io.add_canonical_info_for_model(m, gi)
                got = m.additional_info.get("Canonical")
                want = model_canonical(seq, introns, q["strand"])
                if got != want:
                    problems.append(("canonical-model", "query %d: model introns %s strand %s -> %s, sequence says %s" % (qi, introns, q["strand"], got, want)))
                    break
            else:
                got = det.get_strand(introns, q.get("polya", False), q.get("polyt", False))
                want = model_strand(seq, introns, q.get("polya", False), q.get("polyt", False))
                if got != want:
                    problems.append(("strand", "query %d: introns %s polyA=%s polyT=%s -> strand %s, evidence says %s" % (
                        qi, introns, q.get("polya"), q.get("polyt"), got, want)))
                    break
        except Exception as e:
            problems.append(("crash:%s" % type(e).__name__, "query %d %r raised %r" % (qi, q, e)))
            break
    return problems


def strategy():
    from hypothesis import strategies as st
    q = st.fixed_dictionaries({"kind": st.sampled_from(["read", "read", "model", "strand"]),
                               "introns": st.lists(st.integers(0, len(INTRONS) - 1), max_size=4),
                               "strand": st.sampled_from(["+", "-"]), "polya": st.booleans(), "polyt": st.booleans()})
    return st.fixed_dictionaries({"pairs": st.lists(st.integers(0, len(PAIRS) - 1), min_size=len(INTRONS), max_size=len(INTRONS)),
                                  "filler": st.sampled_from(["ACGTTGCA", "AAAC", "TTTG", "CCGA"]),
                                  "queries": st.lists(q, min_size=1, max_size=8)})


def run(args):
    import sys
    from hypothesis import given, settings, seed, HealthCheck, Phase
    tolerated = set(args.get("tolerated") or [])
    state = {"examples": 0, "distinct": set(), "fail": None, "known": {}, "samples": [], "opposite": 0}

    @settings(max_examples=args.get("max_examples", 300), database=None, deadline=None, suppress_health_check=list(HealthCheck),
              report_multiple_bugs=False, phases=[Phase.generate, Phase.shrink])
    @seed(args.get("seed", 0))
    @given(strategy())
    def prop(case):
        state["examples"] += 1
        state["distinct"].add(json.dumps(case, sort_keys=True))
        # reach probe: the same intron queried on opposite strands
        seen = {}
        for q in case["queries"]:
            if q["kind"] in ("read", "model"):
                for i in q["introns"]:
                    if i in seen and seen[i] != q["strand"]:
                        state["opposite"] += 1
                    seen.setdefault(i, q["strand"])
        if len(state["samples"]) < 2:
            state["samples"].append(case)
        probs = judge(case)
        unl = [p for p in probs if p[0] not in tolerated]
        for p in probs:
            if p[0] in tolerated:
                k = state["known"].setdefault(p[0], {"count": 0, "example": None})
                k["count"] += 1
                if k["example"] is None or len(case["queries"]) < len(k["example"]["case"]["queries"]):
                    k["example"] = {"case": case, "text": p[1]}
        if unl:
            state["fail"] = {"case": case, "problems": unl}
            raise AssertionError(unl[0][1])
    try:
        prop()
    except AssertionError:
        pass
    except Exception as e:
        if state["fail"] is None:
            import traceback
            return {"error": traceback.format_exc()[-1500:]}
    return {"examples": state["examples"], "distinct": len(state["distinct"]), "fail": state["fail"], "known": state["known"],
            "samples": state["samples"], "same_intron_opposite_strands": state["opposite"]}


def replay_case(args):
    import sys
    return {"problems": judge(args["case"])}
