"""Greedy minimisation of pipeline-level replay documents: fewer workers, serial schedule, default buffer/hash seed/memory
mode, then a smaller workload and fewer options - a step is kept only if the same violation class still reproduces."""
import copy
import json

SPEC_STEPS = [
    ("n_exp", [1]), ("n_bams", [1]), ("groups", [0, 2]), ("group_missing", [0]), ("n_chr", [1, 2]), ("genes_per_chr", [1, 2]),
    ("reads_per_iso", [1, 2]), ("novel", [0]), ("novel_cov", [2, 4]), ("paralogs", [0]), ("antisense", [0]), ("mono", [0]),
    ("noncanon", [0]), ("unmapped", [0]), ("supplementary", [0]), ("lowmapq", [0]), ("intergenic", [0]), ("dup_records", [0]),
    ("pre_ids", [0]), ("jitter", [0]), ("truncate", [0]), ("equal_len", [0]), ("chr_order", [0]), ("tie_perm", [0]),
    ("secondary_seq", [1]), ("exp_polya", [None]),
]
OPT_DROP = ["count_exons", "sqanti_output", "check_canonical", "no_gzip", "counts_format", "gene_quant", "transcript_quant",
            "normalization", "model_strategy", "report_canonical", "polya_requirement", "read_group", "bam_order"]


def _jobs(doc):
    js = []
    for k in ("run", "golden"):
        if isinstance(doc.get(k), dict) and "args" in doc[k]:
            js.append(doc[k])
    for j in doc.get("solos") or []:
        js.append(j)
    return js


def candidates(doc):
    """yields (description, candidate doc)"""
    run = doc["run"]["args"]
    # ---- cell
    o = run.get("opts") or {}
    if run.get("sched", {}).get("policy") != "serial" or "picks" in (run.get("sched") or {}):
        c = copy.deepcopy(doc)
        c["run"]["args"]["sched"] = {"policy": "serial", "seed": 0}
        yield "schedule -> serial", c
    if o.get("threads", 1) > 2:
        c = copy.deepcopy(doc)
        c["run"]["args"]["opts"]["threads"] = 2
        yield "threads -> 2", c
    if o.get("threads", 1) > 1:
        c = copy.deepcopy(doc)
        c["run"]["args"]["opts"]["threads"] = 1
        yield "threads -> 1", c
    if run.get("bufsize", 8192) != 8192:
        c = copy.deepcopy(doc)
        c["run"]["args"]["bufsize"] = 8192
        yield "buffer -> 8192", c
    if doc["run"].get("hashseed", 0) != doc.get("golden", {}).get("hashseed", 0) or doc["run"].get("hashseed", 0) != 0:
        c = copy.deepcopy(doc)
        c["run"]["hashseed"] = 0
        if "golden" in c:
            c["golden"]["hashseed"] = 0
        yield "hash seed -> 0", c
    for flag in ("high_memory", "keep_tmp"):
        if o.get(flag):
            c = copy.deepcopy(doc)
            c["run"]["args"]["opts"][flag] = False
            yield "%s -> off" % flag, c
    rs = run.get("resume") or {}
    if rs:
        c = copy.deepcopy(doc)
        c["run"]["args"]["resume"] = {}
        yield "resume with defaults", c
    # ---- workload (applied to every job of the document)
    spec = run.get("spec") or {}
    from .workload import full_spec
    fs = full_spec(spec)
    for key, vals in SPEC_STEPS:
        for v in vals:
            cur = fs.get(key)
            if cur == v or (isinstance(v, int) and isinstance(cur, int) and cur <= v):
                continue
            c = copy.deepcopy(doc)
            for j in _jobs(c):
                if "spec" in j["args"]:
                    j["args"]["spec"][key] = v
            c["_relocate"] = True
            yield "%s -> %r" % (key, v), c
    for key in OPT_DROP:
        if o.get(key) not in (None, False):
            c = copy.deepcopy(doc)
            for j in _jobs(c):
                if "opts" in j["args"] and key in j["args"]["opts"]:
                    j["args"]["opts"].pop(key)
            c["_relocate"] = True
            yield "drop option %s" % key, c


def minimise(doc, orch, evaluate, relocate=None, max_evals=40, log=None):
    """evaluate(doc, orch) -> {"reproduced": bool, "sig": str}; relocate(doc, orch) -> doc or None (C07: re-find the
    crash index by label after the workload changed)"""
    base = evaluate(doc, orch)
    evals = 1
    if not base.get("reproduced"):
        return doc, {"minimised": False, "reason": "did not reproduce on re-execution", "evals": evals}
    steps = []
    progress = True
    while progress and evals < max_evals:
        progress = False
        for desc, cand in candidates(doc):
            if evals >= max_evals:
                break
            variants = [cand]
            if cand.pop("_relocate", False) and relocate is not None and "fault" in cand["run"]["args"]:
                variants = relocate(cand, orch) or []
                evals += 1
            ok = None
            for v in variants:
                v.pop("_relocate", None)
                r = evaluate(v, orch)
                evals += 1
                if r.get("reproduced") and r.get("sig") == base.get("sig"):
                    ok = v
                    break
            if ok is not None:
                doc = ok
                steps.append(desc)
                progress = True
                break
    return doc, {"minimised": True, "steps": steps, "evals": evals, "sig": base.get("sig")}
