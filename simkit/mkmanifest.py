"""Regenerates /verif/MANIFEST.json from the table below:  /venv/bin/python /verif/simkit/mkmanifest.py"""
import json
import os

VERIF = os.path.dirname(os.path.dirname(os.path.abspath(__file__)))
PY = "/venv/bin/python"

NA = {
    "C01": "pure function of (annotation, one alignment, tolerance preset): no schedule, fault, peer, clock or history can change it; not a simulation target (DESIGN.md section 5)",
    "C04": "evidence, nic/nnic labelling and non-redundancy of novel models are functions of the read set of one chromosome; the only cross-process input (multi-mapper suspension) is covered by C08 (DESIGN.md section 5)",
    "C11": "metamorphic relation between two inputs (shifted/reflected genome); nothing for a scheduler or fault injector to vary (DESIGN.md section 5)",
    "C13": "inclusion/exclusion recount is a function of annotation, reads and delta; its grouped-partition clause uses the C09 mechanism, exercised there (DESIGN.md section 5)",
    "C14": "validity of a corrected alignment is a per-read function of alignment, assignment and correction flags (DESIGN.md section 5)",
    "C16": "CIGAR -> exon blocks is a function of one record (DESIGN.md section 5)",
    "C19": "interval/profile primitives are pure functions of sorted lists (DESIGN.md section 5)",
}

# property -> (level category, level text, level note, technique, quick timeout s, thorough timeout s)
CHECKS = {}


def add(pid, category, text, note, technique, qt=900, tt=2400, design="4"):
    CHECKS[pid] = dict(category=category, text=text, note=note, technique=technique, qt=qt, tt=tt, design=design)


add("C06", "exploration",
    "Seeded search over hash seeds (0-7) x --threads (1-16) x task-to-worker placements (policy 'placed' realises random "
    "placements; also serial/spread/pile/rr/pct/random interleavings) x memory mode x keep_tmp x buffer sizes, on workloads with "
    "read groups, cross-chromosome multi-mappers, tied intergenic multi-mappers, genes sharing introns, a long split locus and "
    "1-2 experiments, genes with two unannotated isoforms, a library whose tail statistics switch the polyA requirement on, output "
    "folders with the leftovers of another data set; every execution runs the real pipeline in real forked processes and is compared byte-wise "
    "(after header normalisation) with the reference execution of the same workload. Sampling, not proof.",
    "Trusted: SimPool as a model of ProcessPoolExecutor.map under fork (fidelity self-test compares against the real pool); "
    "inputs come from the seeded workload generator (several chromosomes, read groups, multi-mappers, 1-2 experiments).",
    "deterministic simulation: seeded scheduler over forked pipeline workers + hash-seed fork servers, golden-run equality")

add("C07", "fault_enumeration",
    "For each (workload, cell) the fault-free trace is recorded and the process tree is SIGKILLed before and after file-system "
    "events of that trace (quick: one representative index per distinct stage/label x phase, incl. a two-experiment workload and "
    "late-stage resumes with another --threads value; thorough: every index, plus resume with other --threads/schedules/memory "
    "mode, a second kill during the resume, and random workloads/cells); a second fault kind, SIGINT to the top-level process, "
    "raises KeyboardInterrupt at the event so that the stack unwinds and finally blocks, destructors and exit handlers run under "
    "the same scheduler (when the event belongs to a pool worker the exception surfaces in the owner after the pool has drained "
    "its queue, as the executor does); after each kill `isoquant.py --resume` runs and "
    "all outputs are compared with the uninterrupted control run. A restart-mode block does the same for a run started from saved "
    "assignments (--read_assignments) after an earlier restart from the same saves was killed. Real processes, real buffers, real "
    "destructors.",
    "A kill loses user-space buffers only (no power-loss semantics); C-level writes of pysam/pyfaidx/sqlite are single events; "
    "SIGINT is delivered at tracked events only (not between arbitrary bytecodes) and to the top-level process only (a terminal's "
    "Ctrl+C to the whole process group is not modelled); "
    "crash points are the tracked file-system mutations (open for write, raw write/flush, remove, rename, makedirs).",
    "deterministic simulation: crash-point enumeration over the recorded event trace, kill-tree fault + resume, golden equality",
    qt=1200, tt=3000)

_SWEEP_NOTE = ("Trusted: the oracle's independent parsers and the generator's ground truth; the distributed half of the statement "
               "(nothing lost, duplicated, mislabelled or made non-unique by fan-out, merge, resume, placement or hash seed) is "
               "what the simulator explores; the input half (all annotations and read sets) is only sampled by the workload "
               "generator.")
_SWEEP_TEXT = ("Seeded search: complete simulated executions of the real pipeline over random workloads x cells (hash seed, "
               "--threads, SimPool placement/interleaving, memory mode, keep_tmp, buffer size), a quarter of them killed at a "
               "seeded file-system event (every fourth of these: interrupted with SIGINT) and resumed, some in an output folder that an "
               "earlier - complete or killed - run left behind; the final outputs of every run are judged by this property's own oracle. ")
add("C02", "exploration", _SWEEP_TEXT + "Oracle: every cell of the gene/transcript/transcript-model tables is 0 or the documented "
    "weighted sum of the reported assignments, per-read total <= 1, __ambiguous/__no_feature/__not_aligned, TPM = rescaled counts; "
    "all five strategies for genes and transcripts x both normalisations are swept; a read counted as ambiguous must be shared by "
    ">= 2 features. A machine layer pushes seeded counting operations through the real per-chromosome counters -> dump -> "
    "merge_counts -> TPM hand-over (dealt onto 1-4 chromosomes) and compares the merged tables with the documented weighting.",
    _SWEEP_NOTE,
    "deterministic simulation sweep (schedules, hash seeds, crash+resume) + counts-model oracle over reported assignments; "
    "Hypothesis counter machine over the per-chromosome dump/merge hand-over")
add("C03", "exploration", _SWEEP_TEXT + "Oracle: GTF structure (exons sorted, disjoint, in bounds; transcript/gene records once and "
    "consistent), reference ids reproduce reference structure, extended = reference + novel(models).", _SWEEP_NOTE +
    " Weakest simulation case: only 'reported, and reported once' depends on history/placement; coordinate clauses are by-products.",
    "deterministic simulation sweep (schedules, hash seeds, multi-experiment history, crash+resume) + GTF structure oracle")
add("C05", "exploration", _SWEEP_TEXT + "Oracle: every read with a mapped primary record at or above all documented MAPQ cut-offs "
    "(command line or defaults) is reported in BED and read_assignments (both memory back-ends), no read without admissible alignment "
    "is, no identical records, log statistics = input record counts; workloads contain > 64 kb read islands split at coverage "
    "valleys (straddling read, short leading/tail reads), >= 1024 short reads inside one coverage bin, deep islands whose last "
    "valley is their last bin, a read-through read bridging two genes across the valley, multi-file experiments with unmapped records, mapping qualities on and around the cut-offs. A machine "
    "layer feeds seeded read islands to the real coverage binning, split_coverage_regions and InMemoryAlignmentStorage and compares "
    "with a brute-force overlap model (no alignment without a region; store returns exactly the overlapping alignments).",
    _SWEEP_NOTE,
    "deterministic simulation sweep (placement, memory back-end, crash+resume) + read-accounting oracle against generator ground "
    "truth; Hypothesis region machine over the real splitter and in-memory store")
add("C09", "exploration", _SWEEP_TEXT + "Oracle: run does not abort on ungroupable reads, matrix == linear triples, groups sum to the "
    "ungrouped value, every (feature, group) cell equals the documented weighting of the reads whose ground-truth group it is; "
    "modes tag (RG or another tag)/read_id/file (column, delimiter and gzip layouts)/file_name (--labels, list-file and YAML labels) "
    "x formats both/matrix/linear. A machine layer pushes seeded counting operations with read groups through the real per-chromosome "
    "counters -> dump -> merge_counts hand-over and checks matrix/linear triples, group sums and partition independence.", _SWEEP_NOTE,
    "deterministic simulation sweep (hash seeds, placement, stage hand-over) + grouped-table oracle against generator ground truth; "
    "Hypothesis counter machine over the per-chromosome dump/merge hand-over")
add("C17", "exploration", _SWEEP_TEXT + "Oracle: ids unique per file, novel ids disjoint from reference ids, exon_id <-> exon bijection "
    "across both GTFs and all chromosomes, reference exon_ids preserved; workloads include annotations with IsoQuant-style ids.",
    _SWEEP_NOTE, "deterministic simulation sweep (placement of chromosomes on workers, hash seeds, resume) + identifier oracle")

add("C10", "exploration",
    "Seeded search over multi-experiment invocations: 2-3 experiments (same or different read subsets, different polyA "
    "content) given as YAML and as --bam_list, every permutation of their order (thorough) x --threads {1,2,4} x hash seeds x "
    "SimPool schedules; each experiment's files are compared byte-wise with a stand-alone single-experiment run, and the "
    "combined_* tables cell by cell with the individual tables; list files whose experiments are separated by empty lines or all "
    "carry one name (folders matched to the stand-alone results by content).",
    "Trusted: stand-alone reference runs (threads 1, hash seed 0) and the table parser; experiments come from the seeded generator.",
    "deterministic simulation of in-process histories: permuted experiment sequences in one interpreter vs stand-alone golden runs")

add("C20", "exploration",
    "Seeded search over interleavings of 2-4 complete concurrent IsoQuant invocations under one HOME: every exists/open/"
    "truncate/flush/getmtime/makedirs/rename on the shared cache directory and every sqlite connect/commit/unlink on *.db is a "
    "pre-emption point decided by the scheduler (PCT, starvation windows, yield-after-mutation, random, round robin); families: same GTF, different "
    "GTFs, same basename in different folders, gz / --complete_genedb mixes, a shared --genedb_output folder, adopt-while-owner-"
    "rebuilds after a pre-history; plus a function-level system in which 2-8 actors run the lookup/build/store cycle of the index, "
    "BED and alignment caches (read_mapper.find_stored_*/store_*) and the db-to-GTF direction of the annotation cache with stub "
    "artefacts whose content tags reveal a foreign artefact (inputs optionally carry identical time stamps); a family in which one "
    "of the concurrent runs is SIGKILLed at a seeded shared event (survivors are judged); a family of runs that start together on a "
    "reference without .fai (the index file is then a shared path: truncate, fill, read back and rename are events). "
    "Judged per actor: exit 0, outputs equal the same invocation alone, database used = conversion of its own annotation, cache "
    "files well-formed.",
    "Trusted: logical mtimes (change iff modified), atomicity of sqlite commits and of pysam writes; reference .fai "
    "pre-built except in the fresh-reference family; the aligners themselves cannot run here (no minimap2/STAR): their caches are exercised with stub artefacts.",
    "deterministic simulation of concurrent actors with a seeded scheduler over shared-cache events, vs run-alone golden outputs",
    qt=900, tt=2400)

add("C12", "exploration",
    "Three seeded explorations: (H) histories of <= 6 cache operations (runs with gtf/gz/db x --complete_genedb x --clean_start "
    "into three output folders, edit_gtf, touch_gtf, delete_db, wipe_cache) executed by real IsoQuant invocations under one HOME "
    "with logical mtimes - after every run the database actually used must be a fresh conversion of the current annotation with "
    "the current flags; (R) one workload as .gtf/.gtf.gz/.db x --complete_genedb under varying threads/schedules: outputs "
    "byte-identical; (P) the same reads dealt into 1..4 BAM files in permuted order: assignments, BED and ungrouped tables equal "
    "as multisets (files may list the @SQ lines in different orders; read-through reads join neighbouring read islands); (F) an "
    "output folder reused with --force and another plain-gzip reference of the same name; plus directed stale-cache histories "
    "(two annotations with one file name competing for an output folder, annotation replaced by older content) "
    "and a merger machine that deals sorted record streams into 1-5 files and checks the real BAMOnlineMerger output.",
    "Trusted: logical mtimes (content change => mtime change), harness-side fresh conversions with real gffutils; all "
    "representations of one workload run under one hash seed (hash-seed effects belong to C06).",
    "deterministic simulation of cache histories (sequential actors, logical clock) + golden equality across representations/partitions")

add("C08", "exploration",
    "Two layers. Machine: Hypothesis-generated multisets of the alignments of one read (flags, chromosomes, regions, types, "
    "isoform/gene lists, penalties, exact duplicates) are fed to the real MultimapResolver in EVERY permutation (<= 720) and "
    "compared with a reference model no stricter than the statement; the retained set must be permutation-invariant and "
    "identical after the serialize/deserialize path. Pipeline: paralog workloads presented in different chromosome-length "
    "rankings, BAM file orders and tie orders x memory mode x threads x schedules must give equal outputs as multisets (GTF lines "
    "without the exon_id attribute, whose numbering follows the printing order); variants: the output folder holds the verdict files "
    "of another run, the run is killed during collection and resumed, two experiments with the same read ids in one process; the "
    "counts oracle bounds each read's total contribution by 1.",
    "Trusted: the 40-line reference model; machine records are built like BasicReadAssignment.deserialize builds them; "
    "permutations are exhaustive only per multiset (<= 6 records), multisets are sampled.",
    "deterministic simulation of record-order histories: exhaustive permutation of seeded alignment multisets vs reference model; "
    "order-permuted pipeline runs")

add("C15", "exploration",
    "Two layers. Machine: a seeded Hypothesis RuleBasedStateMachine (rules add_gene_info, add_read, close_and_read_back, "
    "multimapper_files) builds assignment streams with every field drawn from its documented domain, writes them with the real "
    "TmpFileAssignmentPrinter and reads them back with both real readers (full: field-wise equality; abridged: projection equality "
    "and identical record sequence = byte alignment), compares the compact record of the --high_memory object path with the one "
    "of the stream path, and round-trips the *_multimappers_* framing and the _info file. Pipeline: a --keep_tmp run followed by "
    "a --read_assignments run (one saved prefix, or the prefixes of two experiments) under another hash seed/threads/schedule must "
    "reproduce the first run's outputs, and so must a second restart from the same saved assignments.",
    "Trusted: the list model and field extractors; reader calls are bounded by a watchdog (a misaligned stream may loop 2^32 "
    "times); exon lists are non-empty and strings shorter than 65535 bytes (outside the format's domain otherwise).",
    "deterministic simulation of record histories through storage: Hypothesis stateful machine over the real writer and both real "
    "readers; saved-run reuse under a different cell", qt=1200, tt=3000)

add("C18", "exploration",
    "Two layers. Machine: seeded sequences of up to 8 queries (read/model canonical checks on chosen strands, strand detection "
    "with polyA/polyT evidence) against one locus whose candidate introns carry seeded dinucleotide pairs, through the real "
    "IOSupport / StrandDetector; every answer must equal a pure function of (sequence, introns, strand) whatever was asked "
    "before - including the same intron on opposite strands in both orders. Pipeline: --check_canonical runs of workloads with "
    "antisense genes sharing introns and non-canonical genes under permuted tie order, placement and hash seed; every Canonical "
    "flag and the strand of every novel spliced model is recomputed from the FASTA; reads with an exon outside the annotated gene "
    "span (and a later read that sticks out on the other side); genes whose introns are annotated on both strands and that have "
    "unannotated isoforms, under pinned hash seeds; unannotated loci with non-canonical introns whose model strand must not contradict the unanimous polyA/polyT evidence of "
    "the supporting reads (generator ground truth).",
    "Trusted: the 15-line reference functions; strand '.' records are only checked for a well-formed flag; models sharing an intron "
    "with a reference transcript of the other strand are not judged for strand.",
    "deterministic simulation of query histories against per-locus memos (Hypothesis sequences vs pure reference function) + "
    "FASTA-recomputation oracle over simulated pipeline runs")

PENDING = {p: "simulation target (DESIGN.md sections 3-4) whose check is not registered in this revision yet"
           for p in ["C02", "C03", "C05", "C07", "C08", "C09", "C10", "C12", "C15", "C17", "C18", "C20"]}


def main():
    checks = []
    for pid in sorted(CHECKS):
        c = CHECKS[pid]
        checks.append({
            "property_id": pid,
            "quick_cmd": "timeout %d %s /verif/simkit/check.py %s --tier quick" % (c["qt"], PY, pid),
            "thorough_cmd": "timeout %d %s /verif/simkit/check.py %s --tier thorough" % (c["tt"], PY, pid),
            "evidence_file": "/verif/evidence/%s.json" % pid,
            "replay_cmd_template": "%s /verif/simkit/replay.py {path}" % PY,
            "engine": "simkit",
            "level_claimed": {"category": c["category"], "text": c["text"], "design_ref": "DESIGN.md section " + c["design"]},
            "level_note": c["note"],
            "technique": c["technique"],
        })
    na = [{"property_id": k, "reason": v} for k, v in sorted(NA.items())]
    for k, v in sorted(PENDING.items()):
        if k in CHECKS:
            continue
        na.append({"property_id": k, "reason": v})
    m = {
        "version": 1,
        "setup_cmd": "%s /verif/simkit/setup_check.py" % PY,
        "hooks": {
            "guard": "ISOQUANT_VERIF_SIM",
            "enable": "no source hooks: all seams are installed by monkey-patching inside the simulated processes "
                      "(simkit/seams.py); checks import IsoQuant from /repo's working tree at run time, nothing is built",
            "baseline_off_cmd": "cd /repo && /venv/bin/python -m pytest -ra -q -p no:cacheprovider --timeout=900 "
                                "--continue-on-collection-errors",
            "source_commits": [],
            "add_only": True,
        },
        "engines": [{
            "name": "simkit", "path": "/verif/simkit",
            "serves_properties": sorted(CHECKS),
            "kind_free_text": "deterministic simulation with fault injection: seeded scheduler (hub) that owns every "
                              "IsoQuant process of a run (main, pool workers, concurrent actors), file-system event seams, "
                              "kill-tree crash injection, hash-seed fork servers, Hypothesis state machines for in-process "
                              "streams",
        }],
        "checks": checks,
        "not_applicable": na,
        "notes": "See DESIGN.md. Genuine defects found and repaired are listed in known_findings.json (status fixed) and "
                 "as 'fix:' commits in /repo; unrepaired ones are status known.",
    }
    with open(os.path.join(VERIF, "MANIFEST.json"), "w") as f:
        json.dump(m, f, indent=1)
    print("wrote MANIFEST.json with %d checks, %d not_applicable" % (len(checks), len(na)))


if __name__ == "__main__":
    main()
