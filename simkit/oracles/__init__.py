"""Self-consistency oracles over the outputs of one run.  Each returns a list of violation strings."""


def run_oracles(names, files, truth, run, rundir):
    import importlib
    out = {}
    for n in names:
        mod = importlib.import_module("simkit.oracles." + n)
        try:
            out[n] = mod.check(files, truth, run, rundir)
        except Exception:
            import traceback
            out[n] = {"error": traceback.format_exc()[-2000:]}
    return out
