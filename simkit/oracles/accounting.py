"""C05 oracle: every aligned read is accounted for exactly once; log statistics equal the per-category record counts.
Ground truth is the generator's record list (what was written to the BAM), independent of IsoQuant."""
import collections
import os
import re

from . import tables as T
from .. import workload


def check(files, truth, run, rundir):
    problems = []
    spec = truth["spec"]
    argv = run.get("orig_argv") or run["argv"]
    annotated = "--genedb" in argv
    # documented MAPQ filters: --min_mapq (off by default), inconsistent alignments below --inconsistent_mapq_cutoff (5),
    # alignments with 1-2 exons below --simple_alignments_mapq_cutoff (1).  An alignment at or above all of them passes every
    # filter whatever its classification; below that it may or may not be reported
    admit = max(int(T.opt(argv, "--min_mapq", 0) or 0), int(T.opt(argv, "--inconsistent_mapq_cutoff", 5)),
                int(T.opt(argv, "--simple_alignments_mapq_cutoff", 1)))
    # per-experiment log statistics
    log = ""
    try:
        with open(os.path.join(run["outdir"], "isoquant.log"), "r", errors="replace") as f:
            log = f.read()
    except OSError:
        pass
    stat_blocks = re.findall(r"overall alignment statistics:\n((?:.*?INFO - \w+: \d+\n)+)", log)
    resumed = "--resume" in run["argv"]
    order = []
    for p in run.get("prefixes") or T.prefixes_of(files):
        order.append(p)
    for pi, p in enumerate(T.prefixes_of(files)):
        pre = "%s/%s." % (p, p)
        ex = None
        for e in truth["exps"]:
            if e["name"] == p or (p == "OUT" and len(truth["exps"]) == 1):
                ex = e
        if ex is None:
            continue
        members = [i for fl in ex["files"] for i in fl]
        must, free = set(), set()
        cat = collections.Counter()
        single = {}
        for i in members:
            r = truth["reads"][i]
            nm = workload.read_name(r, spec)
            ok = False
            for rec in r["records"]:
                fl = rec["flag"]
                if fl & 256:
                    cat["secondary"] += 1
                elif fl & 2048:
                    cat["supplementary"] += 1
                else:
                    cat["primary"] += 1
                if not (fl & 2048) and not (fl & 4):
                    if rec["mapq"] >= admit and not (fl & 256):
                        ok = True       # the property speaks about primary alignments that pass the filters
                    else:
                        free.add(nm)    # secondary records and records below a cut-off may or may not be reported
            if ok:
                must.add(nm)
            if len(r["records"]) == 1 and ok:
                single[nm] = r["records"][0]
        cat["unaligned"] = spec["unmapped"]
        bed = T.parse_bed(files, pre + "corrected_reads.bed")
        if bed is None:
            problems.append("%scorrected_reads.bed missing" % pre)
            continue
        bed_ids = set(b[3] for b in bed)
        seen = collections.Counter("\t".join(b) for b in bed)
        for l, n in seen.items():
            if n > 1:
                problems.append("%scorrected_reads.bed: identical record %d times: %s" % (pre, n, l[:80]))
        for nm in sorted(must - bed_ids):
            problems.append("%scorrected_reads.bed: read %s (mapped, primary, MAPQ >= %d) is not reported" % (pre, nm, admit))
        for nm in sorted(bed_ids - must - free):
            problems.append("%scorrected_reads.bed: read %s reported but has no admissible alignment in the input" % (pre, nm))
        known = set(workload.read_name(truth["reads"][i], spec) for i in members)
        if annotated:
            als = T.parse_read_assignments(files, pre + "read_assignments.tsv")
            if als is None:
                problems.append("%sread_assignments.tsv missing" % pre)
            else:
                ra_ids = set(a.read_id for a in als)
                for nm in sorted(must - ra_ids):
                    problems.append("%sread_assignments.tsv: read %s is not reported" % (pre, nm))
                for nm in sorted(ra_ids - known):
                    problems.append("%sread_assignments.tsv: unknown read %s" % (pre, nm))
                lines = collections.Counter("\t".join(r) for a in als for r in a.lines)
                for l, n in lines.items():
                    if n > 1:
                        problems.append("%sread_assignments.tsv: identical line %d times: %s" % (pre, n, l[:80]))
                # record-level clause for single-record reads: original exons as in the input
                by = collections.defaultdict(list)
                for a in als:
                    by[a.read_id].append(a)
                for nm, rec in single.items():
                    want = ",".join("%d-%d" % (a, b) for a, b in rec["blocks"])
                    got = set(a.exons for a in by.get(nm, []))
                    if got and want not in got:
                        # polyA-trimmed terminal exons may legitimately differ; only flag wrong chromosome
                        chrs = set(a.chr for a in by[nm])
                        if rec["chr"] not in chrs:
                            problems.append("%sread_assignments.tsv: read %s reported on %s, aligned to %s" % (pre, nm, chrs, rec["chr"]))
                if len(must | (ra_ids & free)) != len(ra_ids & (must | free)):
                    problems.append("%sread_assignments.tsv: distinct read count mismatch" % pre)
        if not resumed and pi < len(stat_blocks):
            # blocks appear in processing order = order of prefixes in the log
            pass
    # log statistics: match blocks to experiments in processing order
    if not resumed and stat_blocks:
        proc_order = re.findall(r"Processing experiment (\S+)", log)
        for p, block in zip(proc_order, stat_blocks):
            ex = None
            for e in truth["exps"]:
                if e["name"] == p or (p == "OUT" and len(truth["exps"]) == 1):
                    ex = e
            if ex is None:
                continue
            members = [i for fl in ex["files"] for i in fl]
            cat = collections.Counter()
            for i in members:
                for rec in truth["reads"][i]["records"]:
                    fl = rec["flag"]
                    cat["secondary" if fl & 256 else "supplementary" if fl & 2048 else "primary"] += 1
            cat["unaligned"] = spec["unmapped"]
            got = {k: int(v) for k, v in re.findall(r"INFO - (\w+): (\d+)", block)}
            for k in ("primary", "secondary", "supplementary", "unaligned"):
                if got.get(k, 0) != cat.get(k, 0):
                    problems.append("log alignment statistics of %s: %s = %d, input has %d" % (p, k, got.get(k, 0), cat.get(k, 0)))
    return problems[:60]
