"""C18 oracle: Canonical flags and novel-model strands recomputed from the reference FASTA (pure function of the sequence)."""
from . import tables as T
from .gtf import load_reference
from .. import workload

FWD = {("GT", "AG"), ("GC", "AG"), ("AT", "AC")}
REV = {("CT", "AC"), ("CT", "GC"), ("GT", "AT")}


def sites(seq, intron):
    a, b = intron          # 1-based closed intron
    return seq[a - 1:a + 1].upper(), seq[b - 2:b].upper()


def expected_flag(seq, exons, strand):
    introns = [(exons[i][1] + 1, exons[i + 1][0] - 1) for i in range(len(exons) - 1)]
    if not introns:
        return "Unspliced"
    if strand not in "+-":
        return None
    s = FWD if strand == "+" else REV
    return str(all(sites(seq, i) in s for i in introns))


def check(files, truth, run, rundir):
    problems = []
    argv = run.get("orig_argv") or run["argv"]
    if "--check_canonical" not in argv:
        return problems
    seqs = dict(truth["chroms"])
    annotated = "--genedb" in argv
    ref = load_reference(rundir) if annotated else {}
    for p in T.prefixes_of(files):
        pre = "%s/%s." % (p, p)
        als = T.parse_read_assignments(files, pre + "read_assignments.tsv") if annotated else None
        for a in als or []:
            flag = a.info.get("Canonical")
            ex = [tuple(int(x) for x in e.split("-")) for e in a.exons.split(",")]
            want = expected_flag(seqs[a.chr], ex, a.strand)
            if flag is None:
                if a.isoforms:
                    problems.append("%sread_assignments.tsv: read %s has no Canonical flag" % (pre, a.read_id))
                continue
            if want is None:
                if flag not in ("True", "False"):
                    problems.append("%sread_assignments.tsv: read %s (strand .) Canonical=%s" % (pre, a.read_id, flag))
                continue
            if flag != want:
                problems.append("%sread_assignments.tsv: read %s %s%s exons %s: Canonical=%s, reference sequence says %s" % (
                    pre, a.read_id, a.chr, a.strand, a.exons, flag, want))
        # polyA / polyT evidence of the input reads (ground truth of the generator): read name -> '+' | '-' | None
        tails = {}
        spec = truth["spec"]
        ep = spec.get("exp_polya")
        trimmed = False
        for e, ex_ in enumerate(truth["exps"]):
            if (ex_["name"] == p or (p == "OUT" and len(truth["exps"]) == 1)) and ep and e < len(ep) and not ep[e]:
                trimmed = True
        for r in truth["reads"]:
            rec = r["records"][0]
            cig = rec["cigar"]
            ev = None
            if cig and cig[-1][0] == 4 and not rec["flag"] & 16:
                ev = "+"
            elif cig and cig[0][0] == 4 and rec["flag"] & 16:
                ev = "-"
            tails[workload.read_name(r, spec)] = ev
        r2t = T.parse_r2t(files, pre + "transcript_model_reads.tsv") or []
        support = {}
        for rid, tid in r2t:
            support.setdefault(tid, set()).add(rid)
        for fn in ("transcript_models.gtf", "extended_annotation.gtf"):
            b = files.get(pre + fn)
            if b is None:
                continue
            tr, genes, _ = T.gtf_transcripts(T.parse_gtf_text(b.decode()))
            for tid, d in tr.items():
                if not d["records"] or not d["exons"]:
                    continue
                r = d["records"][0]
                ex = sorted((e["start"], e["end"]) for e in d["exons"])
                flag = r["attrs"].get("Canonical")
                want = expected_flag(seqs[r["chr"]], ex, r["strand"])
                if flag is None:
                    problems.append("%s%s: transcript %s has no Canonical attribute" % (pre, fn, tid))
                elif want is not None and flag != want:
                    problems.append("%s%s: transcript %s %s%s: Canonical \"%s\", reference sequence says %s" % (
                        pre, fn, tid, r["chr"], r["strand"], flag, want))
                # strand of novel spliced models agrees with their splice sites
                if tid not in ref and len(ex) > 1:
                    introns = [(ex[i][1] + 1, ex[i + 1][0] - 1) for i in range(len(ex) - 1)]
                    cf = sum(1 for i in introns if sites(seqs[r["chr"]], i) in FWD and sites(seqs[r["chr"]], i) not in REV)
                    cr = sum(1 for i in introns if sites(seqs[r["chr"]], i) in REV and sites(seqs[r["chr"]], i) not in FWD)
                    if cf == cr and not trimmed and fn == "transcript_models.gtf":
                        # splice sites uninformative: the strand must not contradict unanimous polyA/polyT evidence of the
                        # reads the model is built from
                        evs = set(tails.get(rid) for rid in support.get(tid, ())) - {None}
                        if len(evs) == 1 and r["strand"] in "+-" and r["strand"] not in evs:
                            problems.append("%s%s: novel transcript %s reported on strand %s; its splice sites are uninformative "
                                            "and all %d supporting reads with a tail carry poly%s (strand %s)" % (
                                                pre, fn, tid, r["strand"], len([1 for rid in support.get(tid, ()) if tails.get(rid)]),
                                                "A" if "+" in evs else "T", sorted(evs)[0]))
                    if cf != cr:
                        imp = "+" if cf > cr else "-"
                        # introns shared with reference transcripts inherit the annotated strand: only judge models
                        # none of whose introns is annotated on the other strand
                        # (an intron annotated on BOTH strands gives no preference: there the genome decides)
                        ann = {}
                        for rt in ref.values():
                            if rt["chr"] != r["chr"]:
                                continue
                            ri = set((rt["exons"][i][1] + 1, rt["exons"][i + 1][0] - 1) for i in range(len(rt["exons"]) - 1))
                            for i_ in ri & set(introns):
                                ann.setdefault(i_, set()).add(rt["strand"])
                        ann_other = any(imp not in strands_ for strands_ in ann.values())
                        if r["strand"] != imp and not ann_other:
                            problems.append("%s%s: novel transcript %s reported on strand %s, its splice sites imply %s (%d fwd, %d rev)" % (
                                pre, fn, tid, r["strand"], imp, cf, cr))
    return problems[:50]
