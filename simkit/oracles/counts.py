"""C02 oracle: count tables equal the documented weighting of the reported read assignments (no stricter than the
statement: a cell is 0 or the model sum within rounding; stats lines; per-read total <= 1; TPM is a rescaling)."""
import collections

from . import tables as T

UNIQUE = ("unique", "unique_minor_difference")
INCONS = ("inconsistent", "inconsistent_non_intronic", "inconsistent_ambiguous")
UNASSIGNED = ("noninformative", "intergenic")


def weight(strategy, atype, k):
    use_amb = strategy in ("with_ambiguous", "all")
    use_inc = strategy in ("unique_inconsistent", "all")
    use_minor = strategy in ("unique_splicing_consistent", "unique_inconsistent", "all")
    if k == 0:
        return 0.0
    if atype in UNIQUE:
        return 1.0
    if atype == "ambiguous":
        if k == 1:
            return 1.0
        return 1.0 / k if use_amb else 0.0
    if atype in INCONS:
        if atype == "inconsistent_ambiguous" or k > 1:
            return 1.0 / k if (use_amb and use_inc) else 0.0
        if use_inc:
            return 1.0
        if use_minor and atype == "inconsistent_non_intronic":
            return 1.0
        return 0.0
    return 0.0


def _close(val, expected, n_summands):
    # printed with 2 decimals; accumulation order differs between workers
    return abs(val - expected) <= 0.005 + 1e-6 * (1 + n_summands)


def check_table(name, table, model, nsum, must_nonzero, complete, problems, zero_ok=True):
    vals, stats, raw = table
    for f, exp in model.items():
        if f not in vals:
            if exp > 0.005 and complete:
                problems.append("%s: feature %s missing, model sum %.3f" % (name, f, exp))
            elif exp > 0.005 and not complete and f in must_nonzero:
                problems.append("%s: feature %s (uniquely supported by a spliced read) missing" % (name, f))
            continue
        v = vals[f]
        if v == 0 and zero_ok:
            if f in must_nonzero and exp > 0.005:
                problems.append("%s: feature %s zeroed although a uniquely assigned spliced read supports it" % (name, f))
            continue
        if not _close(v, exp, nsum.get(f, 1)):
            problems.append("%s: feature %s = %s, documented weighting gives %.4f" % (name, f, raw[f], exp))
    for f, v in vals.items():
        if f not in model and v != 0:
            problems.append("%s: feature %s = %s but no reported assignment supports it" % (name, f, raw[f]))


def check_tpm(name, counts, tpm, simple, problems):
    cv, _, _ = counts
    tv, _, _ = tpm
    tot = sum(cv.values())
    if tot <= 0:
        return
    ks = [(tv.get(f, 0.0) / c) for f, c in cv.items() if c > 0 and f in tv]
    if not ks:
        if any(c > 0 for c in cv.values()):
            problems.append("%s: no TPM rows for counted features" % name)
        return
    k = sorted(ks)[len(ks) // 2]
    for f, c in cv.items():
        if f not in tv:
            if c > 0:
                problems.append("%s: feature %s has count %s but no TPM row" % (name, f, c))
            continue
        if abs(tv[f] - k * c) > 1e-4 * max(1.0, k * c) + 1e-5:
            problems.append("%s: TPM of %s = %s is not count x %.6f (ratios not preserved)" % (name, f, tv[f], k))
    if simple:
        s = sum(v for f, v in tv.items() if not f.startswith("__"))
        if abs(s - 1e6) > 1.0:
            problems.append("%s: TPM column sums to %.3f, not 10^6" % (name, s))


def check(files, truth, run, rundir):
    problems = []
    argv = run["argv"]
    if "--resume" in argv:
        argv = run.get("orig_argv", argv)
    tq = T.opt(argv, "--transcript_quantification", "unique_only")
    gq = T.opt(argv, "--gene_quantification", "unique_splicing_consistent")
    simple = T.opt(argv, "--normalization_method", "simple") == "simple"
    annotated = "--genedb" in argv
    spec = truth["spec"]
    for p in T.prefixes_of(files):
        pre = "%s/%s." % (p, p)
        als = T.parse_read_assignments(files, pre + "read_assignments.tsv") if annotated else None
        bed = T.parse_bed(files, pre + "corrected_reads.bed") or []
        spliced = set((b[3], b[0]) for b in bed if int(b[9]) > 1)
        if als is not None:
            for level, strat, tname in (("t", tq, "transcript_counts.tsv"), ("g", gq, "gene_counts.tsv")):
                table = T.parse_counts(files, pre + tname)
                if table is None:
                    problems.append("%s%s missing" % (pre, tname))
                    continue
                model = collections.defaultdict(float)
                nsum = collections.Counter()
                must = set()
                per_read = collections.defaultdict(float)
                n_amb = n_amb_reads = n_nofeat = 0
                amb_reads, nofeat_reads = set(), set()
                for a in als:
                    feats = sorted(set(a.isoforms if level == "t" else a.genes))
                    atype = a.ttype if level == "t" else a.gtype
                    if atype in UNASSIGNED or not feats:
                        n_nofeat += 1
                        nofeat_reads.add(a.read_id)
                        continue
                    if atype == "ambiguous":
                        n_amb += 1
                        amb_reads.add(a.read_id)
                    w = weight(strat, atype, len(feats))
                    for f in feats:
                        model[f] += w
                        nsum[f] += 1
                    if atype in UNIQUE and len(feats) == 1 and (a.read_id, a.chr) in spliced:
                        must.add(feats[0])
                    per_read[a.read_id] += w * len(feats) if w else 0.0
                check_table(pre + tname, table, model, nsum, must, True, problems)
                # per-read total contribution, judged on what the table actually contains
                vals = table[0]
                for rid, tot in per_read.items():
                    if tot > 1.0 + 1e-6:
                        # only a violation if the table really carries those weights (features not zeroed)
                        live = 0.0
                        tie = True
                        nloc = 0
                        for a in als:
                            if a.read_id != rid:
                                continue
                            feats = sorted(set(a.isoforms if level == "t" else a.genes))
                            atype = a.ttype if level == "t" else a.gtype
                            w = weight(strat, atype, len(feats)) if feats and atype not in UNASSIGNED else 0.0
                            live += sum(w for f in feats if vals.get(f, 0) != 0)
                            if w:
                                nloc += 1
                                if atype not in ("ambiguous", "inconsistent_ambiguous"):
                                    tie = False
                        if live > 1.0 + 1e-6:
                            if tie and nloc > 1:
                                problems.append("%s%s: multi-locus tie counted once per locus: read %s is kept at %d loci, "
                                                "flagged ambiguous at each, weighted per locus, and contributes %.3f in total (> 1)"
                                                % (pre, tname, rid, nloc, live))
                            else:
                                problems.append("%s%s: read %s contributes a total weight of %.3f (> 1)" % (pre, tname, rid, live))
                # "such reads": a read counted as ambiguous is shared by >= 2 features (over all its reported lines)
                union = collections.defaultdict(set)
                for a in als:
                    if a.read_id in amb_reads:
                        atype = a.ttype if level == "t" else a.gtype
                        if atype not in UNASSIGNED:
                            union[a.read_id].update(a.isoforms if level == "t" else a.genes)
                for rid in sorted(amb_reads):
                    if len(union[rid]) == 1:
                        problems.append("%s%s: read %s is counted as ambiguous although every reported assignment of it names "
                                        "the single feature %s" % (pre, tname, rid, sorted(union[rid])[0]))
                st = table[1]
                if "__ambiguous" in st:
                    v = int(st["__ambiguous"])
                    if not (len(amb_reads) <= v <= n_amb):
                        problems.append("%s%s: __ambiguous = %d, reported ambiguous reads %d (alignments %d)" % (
                            pre, tname, v, len(amb_reads), n_amb))
                if "__no_feature" in st:
                    v = int(st["__no_feature"])
                    if not (len(nofeat_reads) <= v <= n_nofeat):
                        problems.append("%s%s: __no_feature = %d, reported unassigned reads %d (alignments %d)" % (
                            pre, tname, v, len(nofeat_reads), n_nofeat))
                if "__not_aligned" in st:
                    exp = None
                    for e, ex in enumerate(truth["exps"]):
                        if ex["name"] == p or (p == "OUT" and len(truth["exps"]) == 1):
                            exp = spec["unmapped"]
                    if exp is not None and int(st["__not_aligned"]) != exp:
                        problems.append("%s%s: __not_aligned = %s, input has %d unmapped records" % (
                            pre, tname, st["__not_aligned"], exp))
                for need in ("__ambiguous", "__no_feature", "__not_aligned"):
                    if need not in st:
                        problems.append("%s%s: line %s missing" % (pre, tname, need))
                tpm = T.parse_counts(files, pre + tname.replace("_counts", "_tpm"))
                if tpm is None:
                    problems.append("%s missing" % (pre + tname.replace("_counts", "_tpm")))
                else:
                    check_tpm(pre + tname.replace("_counts", "_tpm"), table, tpm, simple, problems)
        # transcript model table
        r2t = T.parse_r2t(files, pre + "transcript_model_reads.tsv")
        mt = T.parse_counts(files, pre + "transcript_model_counts.tsv")
        if r2t is not None and mt is not None:
            use_amb = tq in ("with_ambiguous", "all")
            by_read = collections.OrderedDict()
            for rid, tid in r2t:
                by_read.setdefault(rid, [])
                if tid != "*":
                    by_read[rid].append(tid)
            tid2chr = {}
            g = files.get(pre + "transcript_models.gtf")
            if g is not None:
                for rec in T.parse_gtf_text(g.decode()):
                    if rec.get("type") == "transcript":
                        tid2chr[rec["attrs"].get("transcript_id")] = rec["chr"]
            model = collections.defaultdict(float)        # documented: one read, one unit, shared by all its models
            locus_model = collections.defaultdict(float)  # what a per-locus weighting gives
            multilocus = set()
            nsum = collections.Counter()
            for rid, tids in by_read.items():
                ds = sorted(set(tids))
                if not ds:
                    continue
                w = 1.0 if len(ds) == 1 else (1.0 / len(ds) if use_amb else 0.0)
                loci = collections.defaultdict(list)
                for t in ds:
                    loci[tid2chr.get(t, "?")].append(t)
                for t in ds:
                    model[t] += w
                    nsum[t] += 1
                    k = len(loci[tid2chr.get(t, "?")])
                    locus_model[t] += 1.0 if k == 1 else (1.0 / k if use_amb else 0.0)
                    if len(loci) > 1:
                        multilocus.add(t)
            vals, stats, raw = mt
            for f, v in vals.items():
                if f not in model:
                    if v != 0:
                        problems.append("%stranscript_model_counts.tsv: %s = %s without supporting reads" % (pre, f, raw[f]))
                    continue
                if v != 0 and not _close(v, model[f], nsum[f]):
                    if f in multilocus and _close(v, locus_model[f], nsum[f]):
                        problems.append("%stranscript_model_counts.tsv: multi-locus tie counted once per locus: %s = %s, "
                                        "one unit per read gives %.3f" % (pre, f, raw[f], model[f]))
                    else:
                        problems.append("%stranscript_model_counts.tsv: %s = %s, documented weighting gives %.3f" % (
                            pre, f, raw[f], model[f]))
            tpm = T.parse_counts(files, pre + "transcript_model_tpm.tsv")
            if tpm is not None:
                check_tpm(pre + "transcript_model_tpm.tsv", mt, tpm, simple, problems)
    return problems
