"""C09 oracle: grouped tables partition the ungrouped ones; matrix and linear agree; each read counted under the
group the documentation assigns to it (ground truth known to the generator)."""
import collections
import os

from . import tables as T
from .counts import weight, UNASSIGNED
from .. import workload


def expected_group(truth, opts_rg, read_name, bam_label):
    """group the documentation assigns"""
    return None


def label_map(argv):
    """file base name -> label the documentation assigns (--labels, '<path>:<label>' in a list file, 'labels' in YAML;
    default: base name without extension); parsed here independently from the inputs named on the command line"""
    import json
    labels = {}

    def base(p):
        return os.path.splitext(os.path.basename(p))[0]

    def after(flag):
        out = []
        if flag in argv:
            for a in argv[argv.index(flag) + 1:]:
                if a.startswith("--") or (a.startswith("-") and len(a) == 2):
                    break
                out.append(a)
        return out
    try:
        if "--bam" in argv:
            bams, labs = after("--bam"), after("--labels")
            for k, b in enumerate(bams):
                labels[base(b)] = labs[k] if len(labs) == len(bams) else base(b)
        elif "--bam_list" in argv:
            with open(T.opt(argv, "--bam_list")) as f:
                for l in f:
                    l = l.strip()
                    if not l or l.startswith("#"):
                        continue
                    vals = l.split(":")
                    labels[base(vals[0].split()[0])] = vals[-1] if len(vals) > 1 else base(vals[0].split()[0])
        elif "--yaml" in argv:
            with open(T.opt(argv, "--yaml")) as f:
                doc = json.load(f)
            for e in doc:
                fl = e.get("long read files")
                if not fl:
                    continue
                labs = e.get("labels") or []
                for k, b in enumerate(fl):
                    labels[base(b)] = labs[k] if len(labs) == len(fl) else base(b)
    except (OSError, ValueError):
        pass
    return labels


def check(files, truth, run, rundir):
    problems = []
    argv = run.get("orig_argv") or run["argv"]
    rg = T.opt(argv, "--read_group")
    spec = truth["spec"]
    if rg is None and spec["n_bams"] > 1 and "--bam" in argv:
        rg = "file_name"
    if rg is None:
        return problems
    fmt = T.opt(argv, "--counts_format", "both")
    tq = T.opt(argv, "--transcript_quantification", "unique_only")
    gq = T.opt(argv, "--gene_quantification", "unique_splicing_consistent")
    # ground truth: read name -> group
    name2group = {}
    mode = rg.split(":")[0]
    labels = label_map(argv) if mode == "file_name" else {}
    for ei, ex in enumerate(truth["exps"]):
        for fi, members in enumerate(ex["files"]):
            label = "%s.f%d" % (ex["name"], fi)
            for i in members:
                r = truth["reads"][i]
                nm = workload.read_name(r, spec)
                if mode == "file_name":
                    g = labels.get(label, label)
                elif mode == "tag":
                    g = r["group"] if r["group"] is not None else "NA"
                elif mode == "read_id":
                    g = nm.split("_")[-1] if "_" in nm else "NA"
                elif mode == "file":
                    g = r["group"] if r["group"] is not None else "NA"
                else:
                    g = "NA"
                name2group[(ex["name"], nm)] = g
    annotated = "--genedb" in argv
    for p in T.prefixes_of(files):
        pre = "%s/%s." % (p, p)
        expname = p if p != "OUT" else truth["exps"][0]["name"]
        for kind, strat in (("gene", gq), ("transcript", tq), ("transcript_model", tq)):
            un = T.parse_counts(files, pre + kind + "_counts.tsv")
            mx = T.parse_matrix(files, pre + kind + "_grouped_counts.tsv")
            ln = T.parse_linear(files, pre + kind + "_grouped_counts_linear.tsv")
            if un is None:
                continue
            if mx is None and ln is None:
                if kind != "transcript_model" or annotated or True:
                    problems.append("%s%s_grouped_counts*.tsv missing" % (pre, kind))
                continue
            groups, rows = mx if mx is not None else ([], {})
            have_matrix = fmt in ("matrix", "both") and mx is not None and (rows or groups)
            have_linear = fmt in ("linear", "both") and ln is not None
            # (b) matrix and linear contain the same triples (absent = 0)
            if have_matrix and have_linear and fmt == "both":
                a = {(f, g): v for f, gv in rows.items() for g, v in gv.items() if v != 0 and g != "<ragged>"}
                b = collections.defaultdict(float)
                for f, g, v in ln:
                    b[(f, g)] += v
                b = {k: v for k, v in b.items() if v != 0}
                for k in sorted(set(a) | set(b)):
                    if abs(a.get(k, 0.0) - b.get(k, 0.0)) > 1e-9:
                        problems.append("%s%s: matrix has %s=%s, linear has %s" % (pre, kind, k, a.get(k, 0.0), b.get(k, 0.0)))
                        if len(problems) > 30:
                            return problems
            for f, gv in rows.items():
                if "<ragged>" in gv:
                    problems.append("%s%s_grouped_counts.tsv: row %s has %d values for %d groups" % (pre, kind, f, gv["<ragged>"], len(groups)))
            # (c) per feature, sum over groups = ungrouped value
            per_feature = collections.defaultdict(float)
            nparts = collections.Counter()
            if have_matrix:
                for f, gv in rows.items():
                    for g, v in gv.items():
                        if g != "<ragged>":
                            per_feature[f] += v
                            nparts[f] += 1
            elif have_linear:
                for f, g, v in ln:
                    per_feature[f] += v
                    nparts[f] += 1
            for f, v in un[0].items():
                s = per_feature.get(f, 0.0)
                if abs(s - v) > 0.005 * (1 + nparts.get(f, 0)) + 1e-6:
                    problems.append("%s%s: groups of %s sum to %.2f, ungrouped count is %.2f" % (pre, kind, f, s, v))
            for f, s in per_feature.items():
                if f not in un[0] and abs(s) > 0.005 * (1 + nparts[f]):
                    problems.append("%s%s: grouped feature %s (sum %.2f) absent from the ungrouped table" % (pre, kind, f, s))
        # (d) each read under its documented group: recompute grouped gene/transcript tables from read_assignments
        als = T.parse_read_assignments(files, pre + "read_assignments.tsv") if annotated else None
        if als is None:
            continue
        for level, strat, kind in (("t", tq, "transcript"), ("g", gq, "gene")):
            un = T.parse_counts(files, pre + kind + "_counts.tsv")
            mx = T.parse_matrix(files, pre + kind + "_grouped_counts.tsv")
            ln = T.parse_linear(files, pre + kind + "_grouped_counts_linear.tsv")
            got = collections.defaultdict(float)
            if fmt in ("matrix", "both") and mx is not None:
                for f, gv in mx[1].items():
                    for g, v in gv.items():
                        got[(f, g)] += v
            elif ln is not None:
                for f, g, v in ln:
                    got[(f, g)] += v
            else:
                continue
            model = collections.defaultdict(float)
            for a in als:
                feats = sorted(set(a.isoforms if level == "t" else a.genes))
                atype = a.ttype if level == "t" else a.gtype
                if atype in UNASSIGNED or not feats:
                    continue
                g = name2group.get((expname, a.read_id))
                if g is None:
                    problems.append("%sread_assignments: unknown read %s" % (pre, a.read_id))
                    continue
                w = weight(strat, atype, len(feats))
                for f in feats:
                    model[(f, g)] += w
            for (f, g), v in got.items():
                exp = model.get((f, g), 0.0)
                # zeroed features (confirmation rule) are legal: judge only features whose ungrouped value is non-zero
                if un is not None and un[0].get(f, 0.0) == 0:
                    continue
                if abs(v - exp) > 0.02:
                    problems.append("%s%s_grouped: (%s, %s) = %.2f, reads documented to belong to this group give %.2f" % (
                        pre, kind, f, g, v, exp))
            for (f, g), exp in model.items():
                if exp > 0.02 and (f, g) not in got and un is not None and un[0].get(f, 0.0) != 0:
                    problems.append("%s%s_grouped: (%s, %s) missing, expected %.2f" % (pre, kind, f, g, exp))
    return problems[:60]
