"""C03 oracle: output annotations are well-formed and reproduce reference transcripts verbatim."""
import os

from . import tables as T


def load_reference(rundir):
    p = os.path.join(rundir, "in", "genes.gtf")
    with open(p) as f:
        recs = T.parse_gtf_text(f.read())
    tr, genes, _ = T.gtf_transcripts(recs)
    ref = {}
    for tid, d in tr.items():
        ex = sorted((e["start"], e["end"]) for e in d["exons"])
        e0 = d["exons"][0]
        ref[tid] = {"chr": e0["chr"], "strand": e0["strand"], "gene": d["gene"], "exons": ex,
                    "exon_ids": {(e["start"], e["end"]): e["attrs"].get("exon_id") for e in d["exons"]}}
    return ref


def structure(name, text, chr_len, problems):
    """checks one GTF; returns {tid: {chr,strand,gene,exons}}"""
    recs = T.parse_gtf_text(text)
    tr, genes, pr = T.gtf_transcripts(recs)
    problems += ["%s: %s" % (name, x) for x in pr]
    out = {}
    for gid, rs in genes.items():
        if len(rs) != 1:
            problems.append("%s: gene record of %s appears %d times" % (name, gid, len(rs)))
    for tid, d in tr.items():
        if tid is None:
            problems.append("%s: record without transcript_id" % name)
            continue
        if len(d["records"]) != 1:
            problems.append("%s: transcript record of %s appears %d times" % (name, tid, len(d["records"])))
        if not d["exons"]:
            problems.append("%s: transcript %s has no exons" % (name, tid))
            continue
        ex = [(e["start"], e["end"]) for e in d["exons"]]
        sx = sorted(ex)
        chrs = set(e["chr"] for e in d["exons"])
        strands = set(e["strand"] for e in d["exons"])
        if len(chrs) != 1 or len(strands) != 1:
            problems.append("%s: transcript %s has exons on several chromosomes/strands" % (name, tid))
        c, st = d["exons"][0]["chr"], d["exons"][0]["strand"]
        # file order: ascending for +/., descending for - ; either way sorted and non-overlapping as a set
        if ex != sx and ex != sx[::-1]:
            problems.append("%s: exons of %s are not sorted: %s" % (name, tid, ex))
        for (a, b), (c2, d2) in zip(sx[:-1], sx[1:]):
            if c2 <= b:
                problems.append("%s: exons of %s overlap: %s" % (name, tid, sx))
                break
        L = chr_len.get(c)
        for a, b in sx:
            if not (1 <= a <= b and (L is None or b <= L)):
                problems.append("%s: exon %d-%d of %s outside 1..%s" % (name, a, b, tid, L))
        if L is None:
            problems.append("%s: transcript %s on unknown chromosome %s" % (name, tid, c))
        if d["records"]:
            r = d["records"][0]
            if (r["start"], r["end"]) != (sx[0][0], sx[-1][1]):
                problems.append("%s: transcript record of %s spans %d-%d, exons span %d-%d" % (
                    name, tid, r["start"], r["end"], sx[0][0], sx[-1][1]))
            if r["chr"] != c or r["strand"] != st:
                problems.append("%s: transcript record of %s on %s%s, exons on %s%s" % (name, tid, r["chr"], r["strand"], c, st))
        gid = d["gene"]
        g = genes.get(gid)
        if not g:
            problems.append("%s: gene record %s of transcript %s missing" % (name, gid, tid))
        else:
            g = g[0]
            if g["chr"] != c or g["strand"] != st:
                problems.append("%s: gene %s on %s%s but transcript %s on %s%s" % (name, gid, g["chr"], g["strand"], tid, c, st))
            if not (g["start"] <= sx[0][0] and sx[-1][1] <= g["end"]):
                problems.append("%s: gene %s (%d-%d) does not contain transcript %s (%d-%d)" % (
                    name, gid, g["start"], g["end"], tid, sx[0][0], sx[-1][1]))
        out[tid] = {"chr": c, "strand": st, "gene": gid, "exons": sx}
    for gid in genes:
        if gid is not None and not any(d["gene"] == gid for d in tr.values()):
            problems.append("%s: gene %s has no transcripts" % (name, gid))
    return out


def check(files, truth, run, rundir):
    problems = []
    chr_len = {c: len(s) for c, s in truth["chroms"]}
    annotated = "--genedb" in (run.get("orig_argv") or run["argv"])
    ref = load_reference(rundir) if annotated else {}
    for p in T.prefixes_of(files):
        pre = "%s/%s." % (p, p)
        m = files.get(pre + "transcript_models.gtf")
        e = files.get(pre + "extended_annotation.gtf")
        models = ext = None
        if m is not None:
            models = structure(pre + "transcript_models.gtf", m.decode(), chr_len, problems)
        if e is not None:
            ext = structure(pre + "extended_annotation.gtf", e.decode(), chr_len, problems)
        for name, trs in ((pre + "transcript_models.gtf", models), (pre + "extended_annotation.gtf", ext)):
            if trs is None:
                continue
            for tid, t in trs.items():
                if tid in ref:
                    r = ref[tid]
                    if (t["chr"], t["strand"], t["exons"]) != (r["chr"], r["strand"], r["exons"]):
                        problems.append("%s: %s reported under a reference id with different structure: %s%s %s vs reference %s%s %s" % (
                            name, tid, t["chr"], t["strand"], t["exons"], r["chr"], r["strand"], r["exons"]))
                    elif t["gene"] != r["gene"]:
                        problems.append("%s: reference transcript %s attributed to gene %s, reference gene %s" % (
                            name, tid, t["gene"], r["gene"]))
        if annotated and models is not None:
            if ext is None:
                problems.append("%sextended_annotation.gtf missing" % pre)
            else:
                novel = {tid: t for tid, t in models.items() if tid not in ref}
                want = set(ref) | set(novel)
                got = set(ext)
                for tid in sorted(want - got):
                    problems.append("%sextended_annotation.gtf: %s transcript %s missing" % (
                        pre, "reference" if tid in ref else "novel", tid))
                for tid in sorted(got - want):
                    problems.append("%sextended_annotation.gtf: unexpected transcript %s" % (pre, tid))
                for tid, t in novel.items():
                    if tid in ext and (ext[tid]["chr"], ext[tid]["strand"], ext[tid]["exons"]) != (t["chr"], t["strand"], t["exons"]):
                        problems.append("%sextended_annotation.gtf: novel %s differs from transcript_models.gtf" % (pre, tid))
    return problems
