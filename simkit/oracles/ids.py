"""C17 oracle: identifiers are unique, collision-free and functional."""
import collections

from . import tables as T
from .gtf import load_reference


def check(files, truth, run, rundir):
    problems = []
    annotated = "--genedb" in (run.get("orig_argv") or run["argv"])
    try:
        ref = load_reference(rundir) if annotated else {}
    except OSError:
        ref = {}
    ref_genes = set(r["gene"] for r in ref.values())
    ref_gene_locus = {}
    for r in ref.values():
        g = ref_gene_locus.setdefault(r["gene"], [r["chr"], r["strand"], r["exons"][0][0], r["exons"][-1][1]])
        g[2] = min(g[2], r["exons"][0][0])
        g[3] = max(g[3], r["exons"][-1][1])
    ref_exon_id = {}
    for tid, r in ref.items():
        for (a, b), eid in r["exon_ids"].items():
            if eid is not None:
                ref_exon_id[(r["chr"], a, b, r["strand"])] = eid
    for p in T.prefixes_of(files):
        pre = "%s/%s." % (p, p)
        tuple2ids = collections.defaultdict(set)
        id2tuples = collections.defaultdict(set)
        for fn in ("transcript_models.gtf", "extended_annotation.gtf"):
            b = files.get(pre + fn)
            if b is None:
                continue
            recs = T.parse_gtf_text(b.decode())
            tcount = collections.Counter()
            gcount = collections.Counter()
            tstruct = collections.defaultdict(list)
            tgene = {}
            for r in recs:
                if "malformed" in r:
                    continue
                a = r["attrs"]
                if r["type"] == "transcript":
                    tcount[a.get("transcript_id")] += 1
                    tgene[a.get("transcript_id")] = a.get("gene_id")
                elif r["type"] == "gene":
                    gcount[a.get("gene_id")] += 1
                elif r["type"] == "exon":
                    key = (r["chr"], r["start"], r["end"], r["strand"])
                    eid = a.get("exon_id")
                    tstruct[a.get("transcript_id")].append((r["start"], r["end"]))
                    if eid is None:
                        problems.append("%s%s: exon %s without exon_id" % (pre, fn, key))
                        continue
                    tuple2ids[key].add(eid)
                    id2tuples[eid].add(key)
            for tid, n in tcount.items():
                if n > 1:
                    problems.append("%s%s: transcript id %s used %d times" % (pre, fn, tid, n))
            for gid, n in gcount.items():
                if n > 1:
                    problems.append("%s%s: gene id %s used %d times" % (pre, fn, gid, n))
            for tid in tcount:
                if tid in ref and sorted(tstruct[tid]) != ref[tid]["exons"]:
                    problems.append("%s%s: novel transcript re-uses reference id %s" % (pre, fn, tid))
                if tid not in ref and tgene.get(tid) in ref_genes:
                    pass  # novel transcript of a known gene: allowed
            # a novel transcript filed under a reference gene id must belong to that gene's locus (same chromosome and
            # strand, overlapping span); otherwise a freshly generated gene id collides with a reference gene id
            for tid in tcount:
                gid = tgene.get(tid)
                if tid in ref or gid not in ref_gene_locus or not tstruct[tid]:
                    continue
                c, st, a, b = ref_gene_locus[gid]
                ex = sorted(tstruct[tid])
                tchr = None
                tstrand = None
                for r in recs:
                    if r.get("type") == "transcript" and r["attrs"].get("transcript_id") == tid:
                        tchr, tstrand = r["chr"], r["strand"]
                if tchr != c or tstrand != st or ex[-1][1] < a or ex[0][0] > b:
                    problems.append("%s%s: novel transcript %s (%s%s %d-%d) is filed under gene id %s, which the reference uses for a "
                                    "different locus (%s%s %d-%d): generated gene id collides with a reference id" % (
                                        pre, fn, tid, tchr, tstrand, ex[0][0], ex[-1][1], gid, c, st, a, b))
            novel_genes = [g for g in gcount if g not in ref_genes]
            for g in novel_genes:
                if g in ref:
                    problems.append("%s%s: novel gene id %s equals a reference transcript id" % (pre, fn, g))
        for key, ids in tuple2ids.items():
            if len(ids) > 1:
                problems.append("%s exon %s:%d-%d%s carries several exon_ids: %s" % (pre, key[0], key[1], key[2], key[3], sorted(ids)))
            if key in ref_exon_id and ref_exon_id[key] not in ids:
                problems.append("%s reference exon_id %s of %s:%d-%d%s not preserved: %s" % (
                    pre, ref_exon_id[key], key[0], key[1], key[2], key[3], sorted(ids)))
        for eid, keys in id2tuples.items():
            if len(keys) > 1:
                ks = sorted(keys)
                problems.append("%s exon_id %s denotes %d distinct exons, e.g. %s and %s" % (pre, eid, len(ks), ks[0], ks[1]))
    return problems
