"""Parsers shared by the output oracles (independent of IsoQuant code)."""
import collections
import re


def lines_of(files, name):
    b = files.get(name)
    if b is None:
        return None
    return [l for l in b.decode("utf-8", "replace").split("\n") if l != ""]


def parse_counts(files, name):
    """ungrouped table: returns (OrderedDict feature->float, stats dict, raw str values) or None"""
    ls = lines_of(files, name)
    if ls is None:
        return None
    vals, stats, raw = collections.OrderedDict(), {}, {}
    for l in ls:
        if l.startswith("#"):
            continue
        f = l.split("\t")
        if f[0].startswith("__"):
            stats[f[0]] = f[1]
        else:
            vals[f[0]] = float(f[1])
            raw[f[0]] = f[1]
    return vals, stats, raw


def parse_matrix(files, name):
    """grouped matrix: returns (groups list, {feature: {group: float}}) or None"""
    ls = lines_of(files, name)
    if ls is None:
        return None
    groups, rows = None, collections.OrderedDict()
    for l in ls:
        f = l.split("\t")
        if l.startswith("#"):
            groups = f[1:]
            continue
        if f[0].startswith("__"):
            continue
        if groups is None:
            groups = []
        rows[f[0]] = {g: float(v) for g, v in zip(groups, f[1:])}
        if len(f) - 1 != len(groups):
            rows[f[0]]["<ragged>"] = len(f) - 1
    return groups or [], rows


def parse_linear(files, name):
    """grouped linear: list of (feature, group, float)"""
    ls = lines_of(files, name)
    if ls is None:
        return None
    out = []
    for l in ls:
        if l.startswith("#"):
            continue
        f = l.split("\t")
        out.append((f[0], f[1], float(f[2])))
    return out


Alignment = collections.namedtuple("Alignment", "read_id chr strand exons ttype gtype isoforms genes info lines")


def _is_header(l, first_col):
    """header/comment lines of the per-read tables: '# ...' (with a blank) or the column title line; a read name may itself
    start with '#' (valid QNAME character)"""
    return l.startswith("# ") or l.startswith("#" + first_col + "\t") or l == "#"


def parse_read_assignments(files, name):
    """groups the lines of read_assignments.tsv into alignments (read id, chr, exon string)"""
    ls = lines_of(files, name)
    if ls is None:
        return None
    groups = collections.OrderedDict()
    for l in ls:
        if _is_header(l, "read_id"):
            continue
        f = l.split("\t")
        if len(f) < 9:
            f = f + [""] * (9 - len(f))
        key = (f[0], f[1], f[7])
        groups.setdefault(key, []).append(f)
    out = []
    for (rid, chrom, exons), rows in groups.items():
        iso = [r[3] for r in rows if r[3] != "."]
        genes = [r[4] for r in rows if r[4] != "."]
        info = {}
        for kv in rows[0][8].split():
            if "=" in kv:
                k, v = kv.rstrip(";").split("=", 1)
                info[k] = v
        gtype = info.get("gene_assignment", rows[0][5])
        out.append(Alignment(rid, chrom, rows[0][2], exons, rows[0][5], gtype, iso, genes, info, rows))
    return out


def parse_bed(files, name):
    ls = lines_of(files, name)
    if ls is None:
        return None
    out = []
    for l in ls:
        if l.startswith("#"):
            continue
        f = l.split("\t")
        out.append(f)
    return out


def parse_r2t(files, name):
    ls = lines_of(files, name)
    if ls is None:
        return None
    out = []
    for l in ls:
        if _is_header(l, "read_id"):
            continue
        f = l.split("\t")
        out.append((f[0], f[1]))
    return out


_attr_rx = re.compile(r'(\w+) "([^"]*)"')


def parse_gtf_text(text):
    """returns list of records dict(chr, source, type, start, end, strand, attrs{..}, line_no)"""
    recs = []
    for n, l in enumerate(text.split("\n")):
        if not l or l.startswith("#"):
            continue
        f = l.split("\t")
        if len(f) < 9:
            recs.append({"malformed": l, "line_no": n + 1, "type": "?"})
            continue
        attrs = {}
        for k, v in _attr_rx.findall(f[8]):
            attrs.setdefault(k, v)
        recs.append({"chr": f[0], "source": f[1], "type": f[2], "start": int(f[3]), "end": int(f[4]), "strand": f[6],
                     "attrs": attrs, "line_no": n + 1})
    return recs


def gtf_transcripts(recs):
    """returns (transcripts: {tid: {...}}, genes: {gid: [records]}, problems list)"""
    tr = collections.OrderedDict()
    genes = collections.OrderedDict()
    problems = []
    for r in recs:
        if "malformed" in r:
            problems.append("malformed line %d" % r["line_no"])
            continue
        t = r["type"]
        a = r["attrs"]
        if t == "gene":
            genes.setdefault(a.get("gene_id"), []).append(r)
        elif t in ("transcript", "mRNA"):
            d = tr.setdefault(a.get("transcript_id"), {"records": [], "exons": [], "gene": a.get("gene_id")})
            d["records"].append(r)
        elif t == "exon":
            d = tr.setdefault(a.get("transcript_id"), {"records": [], "exons": [], "gene": a.get("gene_id")})
            d["exons"].append(r)
    return tr, genes, problems


def opt(argv, name, default=None):
    if name in argv:
        i = argv.index(name)
        if i + 1 < len(argv):
            return argv[i + 1]
    return default


def prefixes_of(files):
    ps = []
    for k in files:
        if "/" in k:
            p = k.split("/")[0]
            if p not in ps:
                ps.append(p)
    return ps
