"""C08 pipeline oracle: a read kept on several loci is flagged ambiguous on all of them (transcript level when the
retained loci carry >= 2 distinct isoforms, gene level when they carry >= 2 distinct genes); every reported read id has
the same loci in read_assignments.tsv and corrected_reads.bed (a suppressed alignment appears nowhere)."""
import collections

from . import tables as T

AMB = ("ambiguous", "inconsistent_ambiguous")
UNASSIGNED = ("noninformative", "intergenic")


def check(files, truth, run, rundir):
    problems = []
    argv = run.get("orig_argv") or run["argv"]
    if "--genedb" not in argv:
        return problems
    for p in T.prefixes_of(files):
        pre = "%s/%s." % (p, p)
        als = T.parse_read_assignments(files, pre + "read_assignments.tsv")
        bed = T.parse_bed(files, pre + "corrected_reads.bed")
        if als is None or bed is None:
            continue
        by = collections.defaultdict(list)
        for a in als:
            by[a.read_id].append(a)
        for rid, loci in by.items():
            assigned = [a for a in loci if a.ttype not in UNASSIGNED and a.isoforms]
            if len(assigned) < 2:
                continue
            iso = set(i for a in assigned for i in a.isoforms)
            genes = set(g for a in assigned for g in a.genes)
            for a in assigned:
                if len(iso) >= 2 and a.ttype not in AMB:
                    problems.append("%sread_assignments.tsv: read %s is kept at %d loci with isoforms %s but its alignment on %s is "
                                    "reported as %s, not ambiguous" % (pre, rid, len(assigned), sorted(iso)[:4], a.chr, a.ttype))
                    break
                if len(genes) >= 2 and a.gtype not in AMB:
                    problems.append("%sread_assignments.tsv: read %s is kept at %d loci with genes %s but gene_assignment on %s is %s, "
                                    "not ambiguous" % (pre, rid, len(assigned), sorted(genes)[:4], a.chr, a.gtype))
                    break
        ra_loci = collections.Counter((a.read_id, a.chr) for a in als)
        bed_loci = collections.Counter((b[3], b[0]) for b in bed)
        for k in sorted(set(ra_loci) | set(bed_loci)):
            if ra_loci.get(k, 0) != bed_loci.get(k, 0):
                problems.append("%s read %s on %s: %d alignments in read_assignments.tsv, %d in corrected_reads.bed" % (
                    pre, k[0], k[1], ra_loci.get(k, 0), bed_loci.get(k, 0)))
                if len(problems) > 20:
                    return problems
    return problems
