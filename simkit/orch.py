"""Orchestrator: runs jobs on fork servers (one interpreter per PYTHONHASHSEED value), up to `lanes` in parallel."""
import json
import os
import select
import subprocess
import sys
import time

HERE = os.path.dirname(os.path.dirname(os.path.abspath(__file__)))
PY = sys.executable


class Server:
    def __init__(self, hashseed):
        env = dict(os.environ)
        env.update(PYTHONHASHSEED=str(hashseed), OMP_NUM_THREADS="1", OPENBLAS_NUM_THREADS="1", MKL_NUM_THREADS="1",
                   PYTHONWARNINGS="ignore", PYTHONPATH=HERE + os.pathsep + env.get("PYTHONPATH", ""),
                   PYTHONDONTWRITEBYTECODE="1")
        self.hashseed = hashseed
        self.p = subprocess.Popen([PY, "-m", "simkit.server"], stdin=subprocess.PIPE, stdout=subprocess.PIPE,
                                  stderr=subprocess.DEVNULL, env=env, cwd=HERE, bufsize=0)
        self.buf = b""
        self.job = None
        self.ready = False
        self.started = time.monotonic()
        self.job_started = None

    def send(self, job):
        self.job = job
        self.job_started = time.monotonic()
        self.p.stdin.write((json.dumps(job) + "\n").encode())
        self.p.stdin.flush()

    def kill(self):
        try:
            self.p.kill()
        except Exception:
            pass
        try:
            self.p.wait(timeout=5)
        except Exception:
            pass
        for f in (self.p.stdin, self.p.stdout):
            try:
                f.close()
            except Exception:
                pass


class Orchestrator:
    def __init__(self, lanes=None):
        self.lanes = lanes or int(os.environ.get("VERIF_LANES", "0")) or min(16, os.cpu_count() or 4)
        self.servers = []
        self.queue = []          # pending jobs
        self.next_id = 0
        self.inflight = 0
        self.harness_errors = []

    def __enter__(self):
        return self

    def __exit__(self, *a):
        self.close()

    def close(self):
        for s in self.servers:
            try:
                s.p.stdin.write(b'{"quit": true}\n')
                s.p.stdin.flush()
            except Exception:
                pass
        for s in self.servers:
            s.kill()
        self.servers = []

    def submit(self, hashseed, fn, args, tag=None, timeout=300):
        self.next_id += 1
        job = {"id": self.next_id, "fn": fn, "args": args, "timeout": timeout}
        self.queue.append((hashseed, job, tag))
        return self.next_id

    def _dispatch(self):
        # give queued jobs to idle servers with matching hash seed; start/replace servers as needed
        if not self.queue:
            return
        remaining = []
        for hs, job, tag in self.queue:
            srv = None
            for s in self.servers:
                if s.job is None and s.ready and s.hashseed == hs:
                    srv = s
                    break
            if srv is None:
                starting = [s for s in self.servers if not s.ready and s.hashseed == hs and s.job is None]
                if starting:
                    remaining.append((hs, job, tag))
                    continue
                if len(self.servers) < self.lanes:
                    srv = Server(hs)
                    self.servers.append(srv)
                    srv.reserved = True
                    remaining.append((hs, job, tag))
                    continue
                # replace an idle server of another seed that has nothing queued for it
                wanted = set(h for h, _, _ in self.queue)
                victim = None
                for s in self.servers:
                    if s.job is None and s.ready and s.hashseed not in wanted:
                        victim = s
                        break
                if victim is not None:
                    victim.kill()
                    self.servers.remove(victim)
                    srv = Server(hs)
                    self.servers.append(srv)
                remaining.append((hs, job, tag))
                continue
            job["_tag"] = tag
            srv.send(job)
            self.inflight += 1
        self.queue = remaining

    def results(self):
        """generator of (job_id, tag, result_dict) until queue and inflight are empty"""
        while self.queue or self.inflight:
            self._dispatch()
            socks = [s.p.stdout for s in self.servers]
            if not socks:
                time.sleep(0.01)
                continue
            rl, _, _ = select.select(socks, [], [], 1.0)
            now = time.monotonic()
            for s in list(self.servers):
                if s.p.stdout in rl:
                    chunk = os.read(s.p.stdout.fileno(), 1 << 20)
                    if not chunk:
                        # server died
                        job = s.job
                        s.kill()
                        self.servers.remove(s)
                        if job is not None:
                            self.inflight -= 1
                            yield job["id"], job.get("_tag"), {"ok": False, "err": "server died", "kind": "harness"}
                        continue
                    s.buf += chunk
                    while b"\n" in s.buf:
                        line, _, s.buf = s.buf.partition(b"\n")
                        try:
                            msg = json.loads(line)
                        except Exception:
                            continue
                        if msg.get("ready"):
                            s.ready = True
                            continue
                        job = s.job
                        s.job = None
                        self.inflight -= 1
                        yield msg.get("id"), (job or {}).get("_tag"), msg
                elif s.job is not None and now - s.job_started > s.job.get("timeout", 300) + 30:
                    job = s.job
                    s.kill()
                    self.servers.remove(s)
                    self.inflight -= 1
                    yield job["id"], job.get("_tag"), {"ok": False, "err": "server unresponsive", "kind": "timeout"}
                elif not s.ready and now - s.started > 120:
                    s.kill()
                    self.servers.remove(s)

    def run_all(self):
        out = {}
        for jid, tag, res in self.results():
            out[jid] = (tag, res)
        return out
