"""Collect, normalise, digest and diff IsoQuant output files (DESIGN A.4)."""
import gzip
import hashlib
import os
import re

NOT_OUTPUT = ("isoquant.log", "isoquant.log.old", ".params")
NOT_OUTPUT_EXT = (".db", ".fai", ".gzi", ".bai")


def _read_norm(path):
    if path.endswith(".gz"):
        try:
            with gzip.open(path, "rb") as f:
                data = f.read()
        except (OSError, EOFError) as e:
            with open(path, "rb") as f:
                raw = f.read()
            return b"<<corrupt gzip: %s>>" % type(e).__name__.encode() + raw[:64]
    else:
        with open(path, "rb") as f:
            data = f.read()
    lines = data.split(b"\n")
    lines = [l for l in lines if not l.startswith(b"# Command line:")]
    return b"\n".join(lines)


def collect(outdir, chroms=()):
    """returns {relative name (without .gz): normalised bytes} for every output file; residue listed separately"""
    files = {}
    residue = []
    chr_alt = "|".join(re.escape(c) for c in sorted(chroms, key=lambda c: -len(c)))
    part_rx = re.compile(r"_(%s)\." % chr_alt) if chroms else None
    for root, dirs, fns in os.walk(outdir):
        rel_root = os.path.relpath(root, outdir)
        if rel_root.split(os.sep)[-1] == "aux" or (os.sep + "aux" + os.sep) in (os.sep + rel_root + os.sep):
            dirs[:] = []
            continue
        for fn in sorted(fns):
            if fn in NOT_OUTPUT or fn.endswith(NOT_OUTPUT_EXT):
                continue
            rel = os.path.normpath(os.path.join(rel_root, fn))
            if rel_root == "." and not fn.startswith("combined_"):
                # top-level non-output (converted gtf copies, gunzipped reference etc.)
                continue
            if part_rx and part_rx.search(fn):
                residue.append(rel)
                continue
            key = rel[:-3] if rel.endswith(".gz") else rel
            files[key] = _read_norm(os.path.join(root, fn))
    return files, residue


def digests(files):
    return {k: hashlib.sha256(v).hexdigest() for k, v in sorted(files.items())}


def diff(a, b, limit=3):
    """a, b: {name: bytes}.  returns list of human-readable differences (empty = equal)"""
    out = []
    for k in sorted(set(a) | set(b)):
        if k not in a:
            out.append("%s: missing in first" % k)
        elif k not in b:
            out.append("%s: missing in second" % k)
        elif a[k] != b[k]:
            la, lb = a[k].split(b"\n"), b[k].split(b"\n")
            msg = "%s: differs (%d vs %d lines)" % (k, len(la), len(lb))
            n = 0
            for i in range(max(len(la), len(lb))):
                x = la[i] if i < len(la) else b"<eof>"
                y = lb[i] if i < len(lb) else b"<eof>"
                if x != y:
                    msg += "\n   line %d: %r != %r" % (i + 1, x[:160], y[:160])
                    n += 1
                    if n >= limit:
                        break
            out.append(msg)
    return out


def diff_digests(a, b):
    return sorted(k for k in set(a) | set(b) if a.get(k) != b.get(k))
