"""Re-execute a replay file in a fresh interpreter: /venv/bin/python /verif/simkit/replay.py <replay.json>
exit 1 (and a VIOLATION line) if the recorded violation reproduces, 0 if it does not."""
import json
import os
import sys

HERE = os.path.dirname(os.path.dirname(os.path.abspath(__file__)))
if HERE not in sys.path:
    sys.path.insert(0, HERE)


def run_job(orch, j):
    jid = orch.submit(j["hashseed"], j["fn"], j["args"])
    for i, tag, r in orch.results():
        if i == jid:
            return r


def evaluate(doc, orch):
    """re-execute a replay document; returns {"reproduced": bool, "detail": str, "sig": str, "harness": str|None}"""
    oracle = doc.get("oracle")
    if oracle == "golden_equality":
        g = dict(doc["golden"]); g["args"] = dict(g["args"], want=["files"])
        r = dict(doc["run"]); r["args"] = dict(r["args"], want=["files"])
        i1 = orch.submit(g["hashseed"], g["fn"], g["args"])
        if r["args"].get("phase") == "resume":
            # two halves under two hash seeds: the killed run first (fork server of the cell's seed), then the resume
            first = dict(r["args"], phase="crash")
            first.pop("rundir", None)
            first.pop("resume_hashseed", None)
            i0 = orch.submit(r["hashseed"], r["fn"], first)
            out = orch.run_all()
            h = out[i0][1]
            if not h.get("ok") or not h["res"].get("rundir"):
                return {"reproduced": False, "detail": "first half: %s" % (h.get("err") or h.get("res")), "sig": "harness", "harness": str(h.get("err"))}
            second = dict(r["args"], rundir=h["res"]["rundir"])
            other = second.pop("resume_hashseed", (r["hashseed"] + 5) % 8)
            i2 = orch.submit(other, r["fn"], second)
            out2 = orch.run_all()
            out.update(out2)
        else:
            i2 = orch.submit(r["hashseed"], r["fn"], r["args"])
            out = orch.run_all()
        a, b = out[i1][1], out[i2][1]
        if not (a.get("ok") and b.get("ok")):
            return {"reproduced": False, "detail": "", "sig": "harness", "harness": "%s %s" % (a.get("err"), b.get("err"))}
        from simkit import outputs
        if b["res"].get("no_crash"):
            return {"reproduced": False, "detail": "fault not reached", "sig": "nocrash", "harness": None}
        fa = {k: v.encode() for k, v in a["res"]["files"].items()}
        fb = {k: v.encode() for k, v in b["res"]["files"].items()}
        d = outputs.diff(fa, fb)
        sig = "differs" if d else "equal"
        if a["res"]["exit"] != b["res"]["exit"]:
            d.append("exit codes differ: %s vs %s (%s)" % (a["res"]["exit"], b["res"]["exit"], b["res"].get("failure_site")))
            d.append(b["res"].get("log_tail", ""))
            sig = "exit:%s" % (b["res"].get("failure_site") or b["res"]["exit"])
        return {"reproduced": bool(d), "detail": "\n".join(d), "sig": sig, "harness": None,
                "trace_sha": b["res"].get("trace_sha")}
    if oracle == "self":
        j = doc["run"]
        if j["args"].get("phase") == "resume":
            first = dict(j["args"], phase="crash")
            first.pop("rundir", None)
            other = first.pop("resume_hashseed", (j["hashseed"] + 5) % 8)
            i0 = orch.submit(j["hashseed"], j["fn"], first)
            h = orch.run_all()[i0][1]
            if not h.get("ok") or not h["res"].get("rundir"):
                return {"reproduced": False, "detail": "first half: %s" % (h.get("err") or h.get("res")), "sig": "harness", "harness": str(h.get("err"))}
            second = dict(j["args"], rundir=h["res"]["rundir"])
            second.pop("resume_hashseed", None)
            jid = orch.submit(other, j["fn"], second)
        else:
            jid = orch.submit(j["hashseed"], j["fn"], j["args"])
        res = orch.run_all()[jid][1]
        if not res.get("ok"):
            return {"reproduced": False, "detail": "", "sig": "harness", "harness": res.get("err")}
        orc = res["res"].get("oracles", {})
        msgs = []
        first_kind = None
        for name, v in orc.items():
            for m in (v if isinstance(v, list) else [v]):
                msgs.append("%s: %s" % (name, m))
        if res["res"].get("exit") not in (0, None) and doc.get("expect_exit0", True):
            msgs.append("exit %s\n%s" % (res["res"]["exit"], res["res"].get("log_tail", "")))
        import re
        sig = re.sub(r"\d+(\.\d+)?|\br\w+", "N", msgs[0].split(": ", 2)[-1])[:40] if msgs else "none"
        return {"reproduced": bool(msgs), "detail": "\n".join(str(m) for m in msgs), "sig": sig, "harness": None,
                "trace_sha": res["res"].get("trace_sha")}
    if oracle and oracle.startswith("module:"):
        import importlib
        mod = importlib.import_module("simkit." + oracle.split(":", 1)[1])
        reproduced, detail = mod.replay(doc, orch)
        return {"reproduced": reproduced, "detail": detail, "sig": "module", "harness": None}
    return {"reproduced": False, "detail": "", "sig": "unknown", "harness": "unknown oracle in replay file: %r" % oracle}


def main(argv=None):
    argv = argv or sys.argv[1:]
    path = argv[0]
    with open(path) as f:
        doc = json.load(f)
    from simkit.orch import Orchestrator
    prop = doc.get("property")
    with Orchestrator(lanes=4) as orch:
        r = evaluate(doc, orch)
    if r.get("harness"):
        print("HARNESS-ERROR", r["harness"])
        return 2
    exp = (doc.get("expected") or {}).get("trace_sha256")
    if exp and r.get("trace_sha"):
        print("trace sha256: recorded %s, replayed %s -> %s" % (exp[:16], r["trace_sha"][:16],
                                                                "same" if exp == r["trace_sha"] else "DIFFERENT"))
    if r["reproduced"]:
        print("VIOLATION property=%s replay=%s" % (prop, path))
        print(r["detail"][:6000])
        return 1
    print("not reproduced: property=%s replay=%s" % (prop, path))
    return 0


if __name__ == "__main__":
    sys.exit(main())
