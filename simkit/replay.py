"""Re-execute a replay file in a fresh interpreter: /venv/bin/python /verif/simkit/replay.py <replay.json>
exit 1 (and a VIOLATION line) if the recorded violation reproduces, 0 if it does not."""
import json
import os
import sys

HERE = os.path.dirname(os.path.dirname(os.path.abspath(__file__)))
if HERE not in sys.path:
    sys.path.insert(0, HERE)


def run_job(orch, j):
    jid = orch.submit(j["hashseed"], j["fn"], j["args"])
    for i, tag, r in orch.results():
        if i == jid:
            return r


def main(argv=None):
    argv = argv or sys.argv[1:]
    path = argv[0]
    with open(path) as f:
        doc = json.load(f)
    from simkit.orch import Orchestrator
    oracle = doc.get("oracle")
    prop = doc.get("property")
    reproduced = False
    detail = ""
    with Orchestrator(lanes=4) as orch:
        if oracle == "golden_equality":
            g = dict(doc["golden"]); g["args"] = dict(g["args"], want=["files"])
            r = dict(doc["run"]); r["args"] = dict(r["args"], want=["files", "trace"])
            i1 = orch.submit(g["hashseed"], g["fn"], g["args"])
            i2 = orch.submit(r["hashseed"], r["fn"], r["args"])
            out = orch.run_all()
            a, b = out[i1][1], out[i2][1]
            if not (a.get("ok") and b.get("ok")):
                print("HARNESS-ERROR", a.get("err"), b.get("err"))
                return 2
            from simkit import outputs
            fa = {k: v.encode() for k, v in a["res"]["files"].items()}
            fb = {k: v.encode() for k, v in b["res"]["files"].items()}
            d = outputs.diff(fa, fb)
            if a["res"]["exit"] != b["res"]["exit"]:
                d.append("exit codes differ: %s vs %s" % (a["res"]["exit"], b["res"]["exit"]))
                d.append(b["res"].get("log_tail", ""))
            reproduced = bool(d)
            detail = "\n".join(d)
            exp = (doc.get("expected") or {}).get("trace_sha256")
            if exp:
                print("trace sha256: recorded %s, replayed %s -> %s" % (exp[:16], b["res"]["trace_sha"][:16],
                                                                        "same" if exp == b["res"]["trace_sha"] else "DIFFERENT"))
        elif oracle == "self":
            j = doc["run"]
            res = run_job(orch, j)
            if not res.get("ok"):
                print("HARNESS-ERROR", res.get("err"))
                return 2
            orc = res["res"].get("oracles", {})
            msgs = []
            for name, v in orc.items():
                for m in (v if isinstance(v, list) else [v]):
                    msgs.append("%s: %s" % (name, m))
            if res["res"].get("exit") not in (0, None) and doc.get("expect_exit0", True):
                msgs.append("exit %s\n%s" % (res["res"]["exit"], res["res"].get("log_tail", "")))
            reproduced = bool(msgs)
            detail = "\n".join(str(m) for m in msgs)
        elif oracle and oracle.startswith("module:"):
            import importlib
            mod = importlib.import_module("simkit." + oracle.split(":", 1)[1])
            reproduced, detail = mod.replay(doc, orch)
        else:
            print("unknown oracle in replay file: %r" % oracle)
            return 2
    if reproduced:
        print("VIOLATION property=%s replay=%s" % (prop, path))
        print(detail[:6000])
        return 1
    print("not reproduced: property=%s replay=%s" % (prop, path))
    return 0


if __name__ == "__main__":
    sys.exit(main())
