"""Job functions executed inside a fork-server child (which acts as hub/scheduler for the run)."""
import hashlib
import json
import os
import shutil
import sys
import time

from . import workload, simrun, outputs

SCRATCH = os.environ.get("VERIF_SCRATCH", "/dev/shm")
_counter = [0]

DEFAULT_OPTS = {
    "threads": 1,
    "high_memory": False,
    "keep_tmp": False,
    "no_gzip": False,
    "data_type": "nanopore",
    "annotated": True,
    "gtf_repr": "gtf",           # gtf | gz | db
    "complete_genedb": False,
    "input_mode": "auto",        # auto: --bam for one experiment, yaml for several; "bam_list"; "yaml"
    "read_group": None,          # None | "tag" | "read_id" | "file" | "file_name"
    "counts_format": None,
    "check_canonical": False,
    "count_exons": False,
    "sqanti_output": False,
    "gene_quant": None,
    "transcript_quant": None,
    "normalization": None,
    "model_strategy": None,
    "report_canonical": None,
    "polya_requirement": None,
    "no_model_construction": False,
    "clean_start": False,
    "extra": [],
    "exp_order": None,           # permutation of experiment indices
    "only_exp": None,            # run just this experiment index (stand-alone golden for C10)
    "bam_order": None,           # permutation seed for the order of files within an experiment
}


def full_opts(o):
    d = dict(DEFAULT_OPTS)
    d.update(o or {})
    return d


def new_rundir(tag="run"):
    _counter[0] += 1
    d = os.path.join(SCRATCH, "verif-%d-%d-%s" % (os.getpid(), _counter[0], tag))
    shutil.rmtree(d, ignore_errors=True)
    os.makedirs(d)
    return d


def build_inputs(spec, opts, indir):
    o = full_opts(opts)
    truth, paths = workload.build(spec, indir, gtf_gz=(o["gtf_repr"] == "gz"))
    return truth, paths


def make_argv(truth, paths, opts, outdir, indir):
    """returns (argv, prefixes)"""
    o = full_opts(opts)
    s = truth["spec"]
    argv = ["--reference", paths["fasta"], "-d", o["data_type"], "-o", outdir, "-t", str(o["threads"]), "--force"]
    if o["annotated"]:
        if o["gtf_repr"] == "gz":
            argv += ["--genedb", paths["gtf_gz"]]
        elif o["gtf_repr"] == "db":
            argv += ["--genedb", paths["db"]]
        else:
            argv += ["--genedb", paths["gtf"]]
        if o["complete_genedb"]:
            argv += ["--complete_genedb"]
    exps = list(paths["exps"])
    if o["only_exp"] is not None:
        exps = [exps[o["only_exp"]]]
    elif o["exp_order"]:
        exps = [exps[i] for i in o["exp_order"]]
    if o["bam_order"]:
        import random
        r = random.Random("bamorder/%s" % o["bam_order"])
        exps = [dict(e, bams=r.sample(e["bams"], len(e["bams"]))) for e in exps]
    mode = o["input_mode"]
    if mode == "auto":
        mode = "bam" if len(exps) == 1 and o["only_exp"] is None and len(paths["exps"]) == 1 else "yaml"
    if mode == "bam":
        argv += ["--bam"] + exps[0]["bams"]
        prefixes = ["OUT"]
    elif mode == "bam_list":
        lst = os.path.join(indir, "bams.list")
        with open(lst, "w") as f:
            for e in exps:
                f.write("#%s\n" % e["name"])
                for b in e["bams"]:
                    f.write(b + "\n")
        argv += ["--bam_list", lst]
        prefixes = [e["name"] for e in exps]
    else:
        y = os.path.join(indir, "data.yaml")
        with open(y, "w") as f:
            f.write("[\n  {\"data format\": \"bam\"}")
            for e in exps:
                f.write(",\n  {\"name\": \"%s\", \"long read files\": [%s], \"labels\": [%s]}" % (
                    e["name"], ", ".join('"%s"' % b for b in e["bams"]),
                    ", ".join('"%s"' % os.path.basename(b)[:-4] for b in e["bams"])))
            f.write("\n]\n")
        argv += ["--yaml", y]
        prefixes = [e["name"] for e in exps]
    rg = o["read_group"]
    if rg == "tag":
        argv += ["--read_group", "tag:RG"]
    elif rg == "read_id":
        argv += ["--read_group", "read_id:_"]
    elif rg == "file":
        argv += ["--read_group", "file:%s" % paths["group_table"]]
    elif rg == "file_name":
        argv += ["--read_group", "file_name"]
    for flag, key in (("--high_memory", "high_memory"), ("--keep_tmp", "keep_tmp"), ("--no_gzip", "no_gzip"),
                      ("--check_canonical", "check_canonical"), ("--count_exons", "count_exons"),
                      ("--sqanti_output", "sqanti_output"), ("--no_model_construction", "no_model_construction"),
                      ("--clean_start", "clean_start")):
        if o[key]:
            argv.append(flag)
    for optn, key in (("--counts_format", "counts_format"), ("--gene_quantification", "gene_quant"),
                      ("--transcript_quantification", "transcript_quant"),
                      ("--normalization_method", "normalization"),
                      ("--model_construction_strategy", "model_strategy"), ("--report_canonical", "report_canonical"),
                      ("--polya_requirement", "polya_requirement")):
        if o[key] is not None:
            argv += [optn, str(o[key])]
    argv += list(o["extra"])
    return argv, prefixes


def failure_site(log):
    """innermost /repo frame + exception type of the last traceback in an IsoQuant log"""
    import re
    frames = re.findall(r'File "[^"]*?/(src/[\w/]+\.py|isoquant\.py)", line \d+, in (\w+)', log or "")
    exc = re.findall(r"\n(\w+(?:Error|Exception|Exit))\b", log or "")
    site = "%s:%s" % frames[-1] if frames else "?"
    return "%s@%s" % (exc[-1] if exc else "?", site)


def _log_tail(rundir, name="stdout.log", n=25):
    try:
        with open(os.path.join(rundir, name), "r", errors="replace") as f:
            lines = f.readlines()
        keep = [l for l in lines if " - INFO - " not in l]
        return "".join((keep or lines)[-n:])[-3000:]
    except OSError:
        return ""


def run_once(rundir, truth, paths, opts, sched=None, fault=None, bufsize=8192, argv_override=None, logname="stdout.log",
             outdir=None, home=None):
    indir = os.path.join(rundir, "in")
    outdir = outdir or os.path.join(rundir, "out")
    argv, prefixes = make_argv(truth, paths, opts, outdir, indir)
    if argv_override is not None:
        argv = argv_override
    chroms = [c for c, _ in truth["chroms"]]
    allprefixes = sorted(set(prefixes) | set(e["name"] for e in paths["exps"]) | {"OUT"})
    r = simrun.sim_isoquant(argv, rundir, outdir, indir, sched=sched, fault=fault, bufsize=bufsize, chroms=chroms,
                            prefixes=allprefixes, logname=logname, home=home)
    r["argv"] = argv
    r["prefixes"] = prefixes
    r["outdir"] = outdir
    return r


def summarize(r, rundir, truth, want=(), oracles=()):
    chroms = [c for c, _ in truth["chroms"]]
    files, residue = outputs.collect(r["outdir"], chroms)
    res = {
        "exit": r["exit"], "crashed": r["crashed"], "events": r["events"], "steps": r["steps"],
        "harness_error": r["harness_error"], "trace_sha": simrun.trace_digest(r["trace"]),
        "digests": outputs.digests(files), "residue": residue, "placement": simrun.placement_key(r["maps"]),
        "picks": r["picks"], "perms": r["perms"], "crash_label": r["crash_label"], "argv": r["argv"],
        "pool_maps": len(r["maps"]),
    }
    meta = {}
    for k, v in files.items():
        if k.endswith("_counts.tsv"):
            lines = v.split(b"\n")
            body = b"\n".join(l for l in lines if not l.startswith(b"__"))
            meta[k] = {"body": hashlib.sha256(body).hexdigest()[:16],
                       "stats": {l.split(b"\t")[0].decode(): l.split(b"\t")[-1].decode() for l in lines if l.startswith(b"__")}}
    res["table_meta"] = meta
    if "labels" in want:
        res["labels"] = simrun.event_labels(r["trace"])
    if "trace" in want:
        res["trace"] = r["trace"]
    if "files" in want:
        res["files"] = {k: v.decode("utf-8", "replace") for k, v in files.items()}
    if r["exit"] != 0 or r["harness_error"]:
        res["log_tail"] = _log_tail(rundir)
        try:
            with open(os.path.join(rundir, "stdout.log"), "r", errors="replace") as f:
                res["failure_site"] = failure_site(f.read())
        except OSError:
            res["failure_site"] = "?"

    if oracles:
        from .oracles import run_oracles
        res["oracles"] = run_oracles(oracles, files, truth, r, rundir)
    return res


def pipeline(args):
    """one fault-free (or crashing) simulated run.
    args: spec, opts, sched, bufsize, fault, want, oracles, keep"""
    t0 = time.time()
    rundir = new_rundir("p")
    try:
        indir = os.path.join(rundir, "in")
        truth, paths = build_inputs(args.get("spec"), args.get("opts"), indir)
        r = run_once(rundir, truth, paths, args.get("opts"), sched=args.get("sched"), fault=args.get("fault"),
                     bufsize=args.get("bufsize", 8192))
        res = summarize(r, rundir, truth, want=args.get("want", ()), oracles=args.get("oracles", ()))
        res["inputs_sha"] = workload.digest_inputs(indir) if args.get("inputs_sha") else None
        res["wall"] = time.time() - t0
        return res
    finally:
        if not args.get("keep"):
            shutil.rmtree(rundir, ignore_errors=True)


def crash_resume(args):
    """run with a kill fault, then `--resume` fault-free (optionally with a second crash first), then summarise.
    args: spec, opts, sched, bufsize, fault {index, phase}, resume {threads?, sched?, bufsize?, fault2?}"""
    t0 = time.time()
    rundir = new_rundir("c")
    try:
        indir = os.path.join(rundir, "in")
        truth, paths = build_inputs(args.get("spec"), args.get("opts"), indir)
        r1 = run_once(rundir, truth, paths, args.get("opts"), sched=args.get("sched"), fault=args["fault"],
                      bufsize=args.get("bufsize", 8192), logname="crash.log")
        out = {"crash": {"crashed": r1["crashed"], "exit": r1["exit"], "label": r1["crash_label"],
                         "events": r1["events"], "harness_error": r1["harness_error"]}}
        if not r1["crashed"]:
            # fault index beyond the run: nothing to resume
            res = summarize(r1, rundir, truth)
            res.update(out)
            res["no_crash"] = True
            return res
        rs = args.get("resume") or {}
        outdir = r1["outdir"]
        argv = ["--resume", "-o", outdir]
        if rs.get("threads") is not None:
            argv += ["-t", str(rs["threads"])]
        n = 0
        f2 = rs.get("fault2")
        if f2:
            r2 = run_once(rundir, truth, paths, args.get("opts"), sched=rs.get("sched"), fault=f2,
                          bufsize=rs.get("bufsize", args.get("bufsize", 8192)), argv_override=argv,
                          logname="resume_crash.log")
            out["crash2"] = {"crashed": r2["crashed"], "label": r2["crash_label"], "exit": r2["exit"]}
        r3 = run_once(rundir, truth, paths, args.get("opts"), sched=rs.get("sched"), fault=None,
                      bufsize=rs.get("bufsize", args.get("bufsize", 8192)), argv_override=argv, logname="stdout.log")
        r3["orig_argv"] = r1["argv"]
        res = summarize(r3, rundir, truth, want=args.get("want", ()), oracles=args.get("oracles", ()))
        res.update(out)
        res["wall"] = time.time() - t0
        return res
    finally:
        if not args.get("keep"):
            shutil.rmtree(rundir, ignore_errors=True)


def ping(args):
    return {"pong": True, "hashseed": os.environ.get("PYTHONHASHSEED"), "h": hash("abc")}
