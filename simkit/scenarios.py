"""Job functions executed inside a fork-server child (which acts as hub/scheduler for the run)."""
import hashlib
import json
import os
import shutil
import sys
import time

from . import workload, simrun, outputs

SCRATCH = os.environ.get("VERIF_SCRATCH", "/dev/shm")
_counter = [0]

DEFAULT_OPTS = {
    "threads": 1,
    "high_memory": False,
    "keep_tmp": False,
    "no_gzip": False,
    "data_type": "nanopore",
    "annotated": True,
    "gtf_repr": "gtf",           # gtf | gz | db
    "complete_genedb": False,
    "input_mode": "auto",        # auto: --bam for one experiment, yaml for several; "bam_list"; "yaml"
    "read_group": None,          # None | "tag" | "read_id" | "file" | "file_name"
    "counts_format": None,
    "check_canonical": False,
    "count_exons": False,
    "sqanti_output": False,
    "gene_quant": None,
    "transcript_quant": None,
    "normalization": None,
    "model_strategy": None,
    "report_canonical": None,
    "polya_requirement": None,
    "no_model_construction": False,
    "clean_start": False,
    "list_names": None,          # bam_list only: None (distinct '#E<i>' headers) | "dup" (every header is '#DUP') | "blank" (empty
                                 # lines instead of headers: folder names are chosen by IsoQuant)
    "labels": None,              # None | "custom" (--labels / '<path>:<label>' / YAML labels) | "omit" (YAML without labels)
    "group_table_fmt": None,     # None | "<read col>:<group col>:<delim>[:gz]" alternative layout of the --read_group file: table
    "extra": [],
    "exp_order": None,           # permutation of experiment indices
    "only_exp": None,            # run just this experiment index (stand-alone golden for C10)
    "bam_order": None,           # permutation seed for the order of files within an experiment
    "ref_gz": False,             # reference given as plain-gzip FASTA (not bgzf): IsoQuant gunzips it into the output folder
}


def full_opts(o):
    d = dict(DEFAULT_OPTS)
    d.update(o or {})
    return d


def new_rundir(tag="run"):
    _counter[0] += 1
    # fixed-length name: the path is written into headers and parameter files, its length must not vary with the number of digits of the
    # process id (a longer header moves every buffer spill = the number and position of write events)
    d = os.path.join(SCRATCH, "verif-%07d-%04d-%s" % (os.getpid(), _counter[0], tag))
    while os.path.exists(d):
        # process ids are re-used: the directory of a two-phase job (kill here, resume in another fork server) may still be waiting
        # for its second half under this name - never take over an existing directory
        _counter[0] += 1
        d = os.path.join(SCRATCH, "verif-%07d-%04d-%s" % (os.getpid(), _counter[0], tag))
    os.makedirs(d)
    return d


def build_inputs(spec, opts, indir):
    o = full_opts(opts)
    truth, paths = workload.build(spec, indir, gtf_gz=(o["gtf_repr"] == "gz"))
    if o["ref_gz"]:
        import gzip as _gz
        gzp = paths["fasta"] + ".gz"
        with open(paths["fasta"], "rb") as fin, open(gzp, "wb") as raw:
            with _gz.GzipFile(fileobj=raw, mode="wb", mtime=0) as f:
                f.write(fin.read())
        paths["fasta_gz"] = gzp
    if o["gtf_repr"] == "db" and o["annotated"]:
        # a pre-built database supplied by the user: converted here with the real gffutils, IsoQuant's own arguments
        import gffutils
        import warnings
        dbp = os.path.join(indir, "genes_prebuilt.db")
        with warnings.catch_warnings():
            warnings.simplefilter("ignore")
            gffutils.create_db(paths["gtf"], dbp, force=True, keep_order=True, merge_strategy='error',
                               sort_attribute_values=True, disable_infer_transcripts=bool(o["complete_genedb"]),
                               disable_infer_genes=bool(o["complete_genedb"]))
        paths["db"] = dbp
    return truth, paths


def alt_group_table(table, fmt, indir):
    """the same read -> group table in another documented layout (file:<path>:<read col>:<group col>:<delim>, .gz):
    extra columns, comment and blank lines; returns the option value after 'file:'"""
    if not fmt:
        return table
    parts = fmt.split(":")
    rc, gc, delim = int(parts[0]), int(parts[1]), {"tab": "\t", "comma": ",", "semi": ";", "space": " "}[parts[2]]
    gz = "gz" in parts[3:]
    short = "short" in parts[3:]         # file:<path>:<read col> - the documented defaults for the rest (group column 1, tab)
    assert not short or (gc == 1 and delim == "\t")
    ncol = max(rc, gc) + 2
    lines = ["# read table written by the harness\n", "\n"]
    with open(table) as f:
        for k, l in enumerate(f):
            rid, gid = l.rstrip("\n").split("\t")
            cols = ["x%d" % (k % 7)] * ncol
            cols[rc], cols[gc] = rid, gid
            lines.append(delim.join(cols) + "\n")
            if k % 11 == 3:
                lines.append("#comment line\n")
    path = os.path.join(indir, "groups_alt.%s%s" % ("tsv" if delim == "\t" else "txt", ".gz" if gz else ""))
    if gz:
        import gzip as _gz
        with open(path, "wb") as raw:
            with _gz.GzipFile(fileobj=raw, mode="wb", mtime=0) as f:
                f.write("".join(lines).encode())
    else:
        with open(path, "w") as f:
            f.writelines(lines)
    if short:
        return "%s:%d" % (path, rc)
    if delim == "\t":
        return "%s:%d:%d" % (path, rc, gc)
    return "%s:%d:%d:%s" % (path, rc, gc, delim)


def make_argv(truth, paths, opts, outdir, indir):
    """returns (argv, prefixes)"""
    o = full_opts(opts)
    s = truth["spec"]
    argv = ["--reference", paths["fasta_gz"] if o["ref_gz"] else paths["fasta"], "-d", o["data_type"], "-o", outdir,
            "-t", str(o["threads"]), "--force"]
    if o["annotated"]:
        if o["gtf_repr"] == "gz":
            argv += ["--genedb", paths["gtf_gz"]]
        elif o["gtf_repr"] == "db":
            argv += ["--genedb", paths["db"]]
        else:
            argv += ["--genedb", paths["gtf"]]
        if o["complete_genedb"]:
            argv += ["--complete_genedb"]
    exps = list(paths["exps"])
    if o["only_exp"] is not None:
        exps = [exps[o["only_exp"]]]
    elif o["exp_order"]:
        exps = [exps[i] for i in o["exp_order"]]
    if o["bam_order"]:
        import random
        r = random.Random("bamorder/%s" % o["bam_order"])
        exps = [dict(e, bams=r.sample(e["bams"], len(e["bams"]))) for e in exps]
    mode = o["input_mode"]
    if mode == "auto":
        mode = "bam" if len(exps) == 1 and o["only_exp"] is None and len(paths["exps"]) == 1 else "yaml"
    def lab(b):
        bn = os.path.basename(b)[:-4]
        return (bn.replace(".f", "-rep") + "x") if o["labels"] == "custom" else bn
    if mode == "bam":
        argv += ["--bam"] + exps[0]["bams"]
        if o["labels"] == "custom":
            argv += ["--labels"] + [lab(b) for b in exps[0]["bams"]]
        if exps[0].get("illumina"):
            argv += ["--illumina_bam"] + exps[0]["illumina"]
        prefixes = ["OUT"]
    elif mode == "bam_list":
        lst = os.path.join(indir, "bams.list")
        with open(lst, "w") as f:
            for ei, e in enumerate(exps):
                if o["list_names"] == "dup":
                    f.write("#DUP\n")
                elif o["list_names"] == "blank":
                    f.write("\n" if ei else "")
                else:
                    f.write("#%s\n" % e["name"])
                for b in e["bams"]:
                    f.write(b + (":" + lab(b) if o["labels"] == "custom" else "") + "\n")
        argv += ["--bam_list", lst]
        prefixes = [e["name"] for e in exps]
    else:
        y = os.path.join(indir, "data.yaml")
        with open(y, "w") as f:
            f.write("[\n  {\"data format\": \"bam\"}")
            for e in exps:
                f.write(",\n  {\"name\": \"%s\", \"long read files\": [%s]%s%s}" % (
                    e["name"], ", ".join('"%s"' % b for b in e["bams"]),
                    "" if o["labels"] == "omit" else ', "labels": [%s]' % ", ".join('"%s"' % lab(b) for b in e["bams"]),
                    (', "illumina bam": [%s]' % ", ".join('"%s"' % b for b in e["illumina"])) if e.get("illumina") else ""))
            f.write("\n]\n")
        argv += ["--yaml", y]
        prefixes = [e["name"] for e in exps]
    rg = o["read_group"]
    if rg == "tag":
        argv += ["--read_group", "tag:%s" % (s.get("group_tag") or "RG")]
    elif rg == "tag_default":
        argv += ["--read_group", "tag"]
    elif rg == "read_id":
        argv += ["--read_group", "read_id:_"]
    elif rg == "file":
        argv += ["--read_group", "file:%s" % alt_group_table(paths["group_table"], o["group_table_fmt"], indir)]
    elif rg == "file_name":
        argv += ["--read_group", "file_name"]
    for flag, key in (("--high_memory", "high_memory"), ("--keep_tmp", "keep_tmp"), ("--no_gzip", "no_gzip"),
                      ("--check_canonical", "check_canonical"), ("--count_exons", "count_exons"),
                      ("--sqanti_output", "sqanti_output"), ("--no_model_construction", "no_model_construction"),
                      ("--clean_start", "clean_start")):
        if o[key]:
            argv.append(flag)
    for optn, key in (("--counts_format", "counts_format"), ("--gene_quantification", "gene_quant"),
                      ("--transcript_quantification", "transcript_quant"),
                      ("--normalization_method", "normalization"),
                      ("--model_construction_strategy", "model_strategy"), ("--report_canonical", "report_canonical"),
                      ("--polya_requirement", "polya_requirement")):
        if o[key] is not None:
            argv += [optn, str(o[key])]
    argv += list(o["extra"])
    return argv, prefixes


def failure_site(log):
    """innermost /repo frame + exception type of the last traceback in an IsoQuant log"""
    import re
    frames = re.findall(r'File "[^"]*?/(src/[\w/]+\.py|isoquant\.py)", line \d+, in (\w+)', log or "")
    exc = re.findall(r"\n(\w+(?:Error|Exception|Exit))\b", log or "")
    site = "%s:%s" % frames[-1] if frames else "?"
    return "%s@%s" % (exc[-1] if exc else "?", site)


def _log_tail(rundir, name="stdout.log", n=25):
    try:
        with open(os.path.join(rundir, name), "r", errors="replace") as f:
            lines = f.readlines()
        keep = [l for l in lines if " - INFO - " not in l]
        return "".join((keep or lines)[-n:])[-3000:]
    except OSError:
        return ""


def run_once(rundir, truth, paths, opts, sched=None, fault=None, bufsize=8192, argv_override=None, logname="stdout.log",
             outdir=None, home=None):
    indir = os.path.join(rundir, "in")
    outdir = outdir or os.path.join(rundir, "out")
    argv, prefixes = make_argv(truth, paths, opts, outdir, indir)
    if argv_override is not None:
        argv = argv_override
    chroms = [c for c, _ in truth["chroms"]]
    allprefixes = sorted(set(prefixes) | set(e["name"] for e in paths["exps"]) | {"OUT"})
    r = simrun.sim_isoquant(argv, rundir, outdir, indir, sched=sched, fault=fault, bufsize=bufsize, chroms=chroms,
                            prefixes=allprefixes, logname=logname, home=home)
    r["argv"] = argv
    r["prefixes"] = prefixes
    r["outdir"] = outdir
    return r


def summarize(r, rundir, truth, want=(), oracles=(), only_own=False):
    chroms = [c for c, _ in truth["chroms"]]
    files, residue = outputs.collect(r["outdir"], chroms)
    if only_own and r.get("prefixes"):
        # the output folder has a pre-history: result folders of experiments the run under test does not have (other experiment
        # names of the earlier run) are leftovers of that run, not outputs of this one
        own = set(r["prefixes"])
        files = {k: v for k, v in files.items() if "/" not in k or k.split("/")[0] in own}
        residue = [k for k in residue if "/" not in k or k.split("/")[0] in own]
    res = {
        "exit": r["exit"], "crashed": r["crashed"], "events": r["events"], "steps": r["steps"],
        "harness_error": r["harness_error"], "trace_sha": simrun.trace_digest(r["trace"]),
        "digests": outputs.digests(files), "residue": residue, "placement": simrun.placement_key(r["maps"]),
        "picks": r["picks"], "perms": r["perms"], "crash_label": r["crash_label"], "argv": r["argv"],
        "pool_maps": len(r["maps"]),
    }
    meta = {}
    for k, v in files.items():
        if k.endswith("_counts.tsv"):
            lines = v.split(b"\n")
            body = b"\n".join(l for l in lines if not l.startswith(b"__"))
            meta[k] = {"body": hashlib.sha256(body).hexdigest()[:16],
                       "stats": {l.split(b"\t")[0].decode(): l.split(b"\t")[-1].decode() for l in lines if l.startswith(b"__")}}
    res["table_meta"] = meta
    res["sorted_digests"] = {k: hashlib.sha256(b"\n".join(sorted(v.split(b"\n")))).hexdigest()[:20]
                             for k, v in files.items()}
    # ... and the same with the exon_id attribute of GTF lines removed (its numbering follows the order in which the models of a
    # chromosome are printed; a property that speaks about WHICH alignments are kept does not speak about that numbering)
    import re as _re
    res["sorted_digests_no_exon_id"] = {
        k: (hashlib.sha256(b"\n".join(sorted(_re.sub(rb' exon_id "[^"]*";', b"", v).split(b"\n")))).hexdigest()[:20]
            if k.endswith(".gtf") else res["sorted_digests"][k]) for k, v in files.items()}
    if "labels" in want:
        res["labels"] = simrun.event_labels(r["trace"])
    if "trace" in want:
        res["trace"] = r["trace"]
    if "files" in want:
        res["files"] = {k: v.decode("utf-8", "replace") for k, v in files.items()}
    if r["exit"] != 0 or r["harness_error"]:
        res["log_tail"] = _log_tail(rundir)
        try:
            with open(os.path.join(rundir, "stdout.log"), "r", errors="replace") as f:
                res["failure_site"] = failure_site(f.read())
        except OSError:
            res["failure_site"] = "?"

    if oracles:
        from .oracles import run_oracles
        res["oracles"] = run_oracles(oracles, files, truth, r, rundir)
    return res


def pipeline(args):
    """one fault-free (or crashing) simulated run.
    args: spec, opts, sched, bufsize, fault, want, oracles, keep"""
    t0 = time.time()
    rundir = new_rundir("p")
    try:
        indir = os.path.join(rundir, "in")
        truth, paths = build_inputs(args.get("spec"), args.get("opts"), indir)
        pre = args.get("pre")
        if pre:
            # history of the output folder: an earlier run of another data set went into the same folder
            _run_pre_history(rundir, pre, args, os.path.join(rundir, "out"), os.path.join(rundir, "home"), [])
        if args.get("rerun"):
            # "repeated runs": the same command once more into the folder that already holds its results (--force)
            run_once(rundir, truth, paths, args.get("opts"), sched=args.get("sched"), bufsize=args.get("bufsize", 8192),
                     logname="first.log")
        r = run_once(rundir, truth, paths, args.get("opts"), sched=args.get("sched"), fault=args.get("fault"),
                     bufsize=args.get("bufsize", 8192))
        res = summarize(r, rundir, truth, want=args.get("want", ()), oracles=args.get("oracles", ()), only_own=bool(args.get("pre")))
        res["inputs_sha"] = workload.digest_inputs(indir) if args.get("inputs_sha") else None
        res["wall"] = time.time() - t0
        return res
    finally:
        if not args.get("keep"):
            shutil.rmtree(rundir, ignore_errors=True)


def _run_pre_history(rundir, pre, args, outdir_, home_, cache):
    """history of the output folder: an earlier run of ANOTHER data set went into the same folder (with --keep_tmp, or killed at
    a label-relative point), then the run under test starts there with --force"""
    predir = os.path.join(rundir, "pre")
    if not cache:
        cache.append(build_inputs(pre["spec"], pre.get("opts"), os.path.join(predir, "in")))
    truth0, paths0 = cache[0]
    pf = dict(pre["fault"]) if pre.get("fault") else None
    if pf and "index" not in pf:
        import re as _re
        pr_ = run_once(predir, truth0, paths0, pre.get("opts"), sched=args.get("sched"), fault=None,
                       bufsize=args.get("bufsize", 8192), logname="pre_probe.log",
                       outdir=os.path.join(predir, "probe_out"), home=os.path.join(predir, "probe_home"))
        rx = _re.compile(pf.get("label_rx", "."))
        hits = [seq for seq, slot, label, occ in simrun.event_labels(pr_["trace"]) if rx.search(label)]
        pf["index"] = hits[int(pf.get("nth", 0)) % len(hits)] if hits else 10 ** 9
        shutil.rmtree(os.path.join(predir, "probe_out"), ignore_errors=True)
        shutil.rmtree(os.path.join(predir, "probe_home"), ignore_errors=True)
    r0_ = run_once(predir, truth0, paths0, pre.get("opts"), sched=args.get("sched"), fault=pf,
                   bufsize=args.get("bufsize", 8192), logname="pre.log", outdir=outdir_, home=home_)
    if r0_["harness_error"]:
        raise RuntimeError("pre-history run: %s" % r0_["harness_error"])


def _locate_fault(fault, trace):
    """stage-/label-relative fault -> absolute event index, from the trace of a fault-free probe run of the same job"""
    from .checks import c07 as _c07
    labels = simrun.event_labels(trace)
    st = _c07.stages_of(labels)
    k0 = _c07.first_crashable(labels)
    cand = [seq for seq, slot, label, occ in labels if seq >= k0 and (not fault.get("stage") or st[seq] == fault["stage"])]
    if fault.get("label_rx"):
        # label-relative: the nth event (counted from the end when negative) whose templated label matches
        import re as _re
        rx = _re.compile(fault["label_rx"])
        hits = [seq for seq, slot, label, occ in labels if seq >= k0 and rx.search(label)
                and (not fault.get("stage") or st[seq] == fault["stage"])]
        if hits:
            nth = int(fault.get("nth", 0))
            cand = [hits[nth % len(hits)] if nth >= 0 else hits[max(0, len(hits) + nth)]]
            fault["frac"] = 0.0
    if not cand:
        cand = [seq for seq, slot, label, occ in labels if seq >= k0] or [0]
    fault["index"] = cand[min(len(cand) - 1, int(float(fault.get("frac", 0.5)) * len(cand)))]
    return fault


def crash_resume(args):
    """run with a kill fault, then `--resume` fault-free (optionally with a second crash first), then summarise.
    args: spec, opts, sched, bufsize, fault {index, phase}, resume {threads?, sched?, bufsize?, fault2?}"""
    t0 = time.time()
    phase = args.get("phase")          # None: crash and resume in this process; "crash" / "resume": the two halves, run by
    #                                    different fork servers (= under different PYTHONHASHSEED values) on one run directory
    if phase == "resume":
        import json as _json
        rundir = args["rundir"]
        try:
            with open(os.path.join(rundir, "crash_state.json")) as f:
                stt = _json.load(f)
            truth = workload.generate(args.get("spec"))
            paths = stt["paths"]
            rs = args.get("resume") or {}
            argv = ["--resume", "-o", stt["outdir"]]
            if rs.get("threads") is not None:
                argv += ["-t", str(rs["threads"])]
            r3 = run_once(rundir, truth, paths, args.get("opts"), sched=rs.get("sched"), fault=None,
                          bufsize=rs.get("bufsize", args.get("bufsize", 8192)), argv_override=argv, logname="stdout.log")
            r3["orig_argv"] = stt["orig_argv"]
            res = summarize(r3, rundir, truth, want=args.get("want", ()), oracles=args.get("oracles", ()), only_own=bool(args.get("pre")))
            res["crash"] = stt["crash"]
            res["wall"] = time.time() - t0
            return res
        finally:
            if not args.get("keep"):
                shutil.rmtree(rundir, ignore_errors=True)
    rundir = new_rundir("c")
    try:
        indir = os.path.join(rundir, "in")
        truth, paths = build_inputs(args.get("spec"), args.get("opts"), indir)
        pre = args.get("pre")

        def pre_history(outdir_, home_):
            _run_pre_history(rundir, pre, args, outdir_, home_, pre_built)
        pre_built = []
        if pre:
            pre_history(os.path.join(rundir, "out"), os.path.join(rundir, "home"))
        fault = dict(args["fault"])
        if "index" not in fault:
            # stage-relative fault {"stage": name | None, "frac": 0..1}: a fault-free probe run of the same job (same schedule)
            # gives the event labels; the kill index is the frac-quantile of the crashable events of that stage
            from .checks import c07 as _c07
            probe = os.path.join(rundir, "probe")
            before = set(os.listdir(indir))
            if pre:
                pre_history(os.path.join(probe, "out"), os.path.join(probe, "home"))
            r0 = run_once(rundir, truth, paths, args.get("opts"), sched=args.get("sched"), fault=None,
                          bufsize=args.get("bufsize", 8192), logname="probe.log", outdir=os.path.join(probe, "out"),
                          home=os.path.join(probe, "home"))
            _locate_fault(fault, r0["trace"])
            shutil.rmtree(probe, ignore_errors=True)
            for fn in set(os.listdir(indir)) - before:
                # side products of the probe next to the inputs (reference index) - the real run must create them itself
                os.remove(os.path.join(indir, fn))
        r1 = run_once(rundir, truth, paths, args.get("opts"), sched=args.get("sched"), fault=fault,
                      bufsize=args.get("bufsize", 8192), logname="crash.log")
        out = {"crash": {"crashed": r1["crashed"], "exit": r1["exit"], "label": r1["crash_label"],
                         "events": r1["events"], "harness_error": r1["harness_error"], "index": fault.get("index")}}
        if not r1["crashed"]:
            # fault index beyond the run: nothing to resume
            res = summarize(r1, rundir, truth)
            res.update(out)
            res["no_crash"] = True
            return res
        if phase == "crash":
            import json as _json
            with open(os.path.join(rundir, "crash_state.json"), "w") as f:
                _json.dump({"paths": paths, "outdir": r1["outdir"], "orig_argv": r1["argv"], "crash": out["crash"]}, f)
            args["keep"] = True          # the second half removes the run directory
            return {"rundir": rundir, "crash": out["crash"], "phase": "crash", "exit": None, "harness_error": r1["harness_error"]}
        rs = args.get("resume") or {}
        outdir = r1["outdir"]
        argv = ["--resume", "-o", outdir]
        if rs.get("threads") is not None:
            argv += ["-t", str(rs["threads"])]
        if rs.get("high_memory"):
            argv += ["--high_memory"]
        if rs.get("keep_tmp"):
            argv += ["--keep_tmp"]
        n = 0
        f2 = rs.get("fault2")
        if f2:
            r2 = run_once(rundir, truth, paths, args.get("opts"), sched=rs.get("sched"), fault=f2,
                          bufsize=rs.get("bufsize", args.get("bufsize", 8192)), argv_override=argv,
                          logname="resume_crash.log")
            out["crash2"] = {"crashed": r2["crashed"], "label": r2["crash_label"], "exit": r2["exit"]}
        r3 = run_once(rundir, truth, paths, args.get("opts"), sched=rs.get("sched"), fault=None,
                      bufsize=rs.get("bufsize", args.get("bufsize", 8192)), argv_override=argv, logname="stdout.log")
        r3["orig_argv"] = r1["argv"]
        res = summarize(r3, rundir, truth, want=args.get("want", ()), oracles=args.get("oracles", ()), only_own=bool(args.get("pre")))
        res.update(out)
        res["wall"] = time.time() - t0
        return res
    finally:
        if not args.get("keep"):
            shutil.rmtree(rundir, ignore_errors=True)


def ping(args):
    return {"pong": True, "hashseed": os.environ.get("PYTHONHASHSEED"), "h": hash("abc")}


# ---------------------------------------------------------------------------------------------------------------
# shared-cache sessions (C20 concurrent actors, C12 cache histories)
def _db_digest(dbpath):
    """order-independent digest of the features of a gffutils database"""
    import gffutils
    h = hashlib.sha256()
    db = gffutils.FeatureDB(dbpath)
    rows = []
    for f in db.all_features():
        rows.append("%s|%s|%s|%d|%d|%s|%s" % (f.id, f.seqid, f.featuretype, f.start, f.end, f.strand,
                                               sorted((k, tuple(v)) for k, v in f.attributes.items())))
    for r in sorted(rows):
        h.update(r.encode())
    return "%d:%s" % (len(rows), h.hexdigest()[:20])


_fresh_cache = {}


def _fresh_digest(gtf_path, complete, scratch):
    """digest of a fresh conversion of the current annotation with the given flag (harness-side, real gffutils)"""
    import gffutils
    with open(gtf_path, "rb") as f:
        key = (hashlib.sha256(f.read()).hexdigest(), bool(complete))
    if key not in _fresh_cache:
        tmp = os.path.join(scratch, "_fresh_%d.db" % len(_fresh_cache))
        import warnings
        with warnings.catch_warnings():
            warnings.simplefilter("ignore")
            gffutils.create_db(gtf_path, tmp, force=True, keep_order=True, merge_strategy='error',
                               sort_attribute_values=True, disable_infer_transcripts=complete,
                               disable_infer_genes=complete)
        _fresh_cache[key] = _db_digest(tmp)
        os.remove(tmp)
    return _fresh_cache[key]


def _drop_transcript(lines, last=True):
    """annotation lines without its last (first) transcript; a gene that loses its only transcript goes as a whole, and the last
    two transcripts of the annotation are never removed (IsoQuant needs an annotation with transcripts)"""
    import re
    tids = []
    for t in re.findall(r'transcript_id "([^"]+)"', "".join(lines)):
        if t not in tids:
            tids.append(t)
    if len(tids) <= 2:
        return list(lines)
    victim = tids[-1] if last else tids[0]
    keep = [l for l in lines if ('transcript_id "%s"' % victim) not in l]
    genes_left = set(re.findall(r'gene_id "([^"]+)"; transcript_id', "".join(keep)))
    return [l for l in keep if "transcript_id" in l or re.search(r'gene_id "([^"]+)"', l).group(1) in genes_left]


def _edit_gtf(paths, si):
    """content change of the annotation: drop its last transcript (keeps it valid); both representations, newer real mtime"""
    import re
    import gzip as _gz
    with open(paths["gtf"]) as f:
        lines = f.readlines()
    keep = _drop_transcript(lines, last=True)
    with open(paths["gtf"], "w") as f:
        f.writelines(keep)
    with open(paths["gtf_gz"], "wb") as raw:
        with _gz.GzipFile(fileobj=raw, mode="wb", mtime=0) as f:
            f.write("".join(keep).encode())
    st = os.stat(paths["gtf"])
    for pth in (paths["gtf"], paths["gtf_gz"]):
        os.utime(pth, (st.st_mtime + 2000.0 + si, st.st_mtime + 2000.0 + si))


def cache_session(args):
    """args: workloads [{spec, gz}], steps [ {"run": [actor, ...]} | {"op": ..., ...} ], sched (for concurrent steps)
    actor: {"wl": j, "opts": {...}, "out": "A"}"""
    import re
    t0 = time.time()
    rundir = new_rundir("s")
    try:
        home = os.path.join(rundir, "home")
        wls = []
        dirs = []
        for j, w in enumerate(args["workloads"]):
            indir = os.path.join(rundir, "in%d" % j)
            if w.get("same_basename_dir"):
                indir = os.path.join(rundir, "in%d" % j, "data")
            truth, paths = workload.build(w["spec"], indir, gtf_gz=True)
            if not args.get("cold_fai"):
                import pyfaidx
                pyfaidx.Faidx(paths["fasta"]).close()
            wls.append((truth, paths, indir))
            dirs.append((indir, "<in%d>" % j))
        mtimes = {}
        clock = [4_000_000_000]      # logical time stamps lie after every real one (a converted database is newer than its source)
        out = {"steps": [], "events": 0}
        outs = {}
        traces = []
        all_picks = []
        probes = {}
        reading_truncated = [0]

        def on_event(hub, a, m, seq):
            k, p = m["k"], m["p"]
            st = hub.__dict__.setdefault("_wopen", {})
            if k == "open:w":
                st[p] = a.slot
            elif k == "write" and st.get(p) == a.slot:
                st.pop(p, None)
            elif k == "open:r" and p in st and st[p] != a.slot:
                hub.probe("cache_file_read_while_peer_holds_it_truncated")
            w = hub.__dict__.setdefault("_dbw", {})
            if k == "sqlite-connect" and not m.get("new"):
                if p in w and w[p] != a.slot:
                    hub.probe("db_opened_while_peer_is_rebuilding_it")
            if (k == "sqlite-connect" and m.get("new")) or (k == "remove" and p.endswith(".db")):
                w[p] = a.slot
            if k == "getmtime" and w.get(p) == a.slot:
                w.pop(p, None)      # the converter reads the mtime of the finished database
            if k == "getmtime" and p.endswith(".db") and p in w and w[p] != a.slot:
                hub.probe("db_mtime_checked_while_peer_is_rebuilding_it")

        during = {"todo": None, "commits": 0}
        _inner_on_event = on_event

        def on_event(hub, a, m, seq):          # noqa: F811 - wraps the probe hook above
            _inner_on_event(hub, a, m, seq)
            td = during["todo"]
            if td is not None and m["k"] == "sqlite-commit" and m["p"].endswith(".db"):
                during["commits"] += 1
                if during["commits"] == td.get("nth_commit", 3):
                    # the user replaces the annotation while a run is converting it
                    apply_op(dict(td, op=td["op"]), 50 + during["commits"])
                    during["todo"] = None
                    hub.probe("annotation_changed_during_conversion")

        def apply_op(step, si):
            truth, paths, indir = wls[step.get("wl", 0)]
            assert step["op"] == "edit_gtf"
            _edit_gtf(paths, si)

        for si, step in enumerate(args["steps"]):
            if "run" in step and step.get("during"):
                during["todo"], during["commits"] = dict(step["during"]), 0
            if "op" in step:
                op = step["op"]
                truth, paths, indir = wls[step.get("wl", 0)]
                if op == "edit_gtf":
                    _edit_gtf(paths, si)
                elif op == "restore_old_gtf":
                    # the file is replaced by a different annotation that carries an OLDER mtime (cp -p, rsync -a, tar x)
                    with open(paths["gtf"]) as f:
                        lines = f.readlines()
                    keep = _drop_transcript(lines, last=False)
                    with open(paths["gtf"], "w") as f:
                        f.writelines(keep)
                    import gzip as _gz
                    with open(paths["gtf_gz"], "wb") as raw:
                        with _gz.GzipFile(fileobj=raw, mode="wb", mtime=0) as f:
                            f.write("".join(keep).encode())
                    # annotation files are not simulated paths: give the files a real, older modification time (as cp -p does)
                    st = os.stat(paths["gtf"])
                    old = st.st_mtime - 100000.0 - si
                    for pth in (paths["gtf"], paths["gtf_gz"]):
                        os.utime(pth, (old, old))
                elif op == "touch_gtf":
                    st = os.stat(paths["gtf"])
                    os.utime(paths["gtf"], (st.st_mtime + 1000.0 + si, st.st_mtime + 1000.0 + si))
                elif op == "delete_db":
                    d = outs.get(step.get("out"))
                    if d:
                        for fn in os.listdir(d):
                            if fn.endswith(".db"):
                                os.remove(os.path.join(d, fn))
                                mtimes.pop(os.path.join(d, fn), None)
                elif op == "wipe_cache":
                    shutil.rmtree(os.path.join(home, ".config"), ignore_errors=True)
                out["steps"].append({"op": op})
                continue
            actors = []
            meta = []
            for ai, a in enumerate(step["run"]):
                truth, paths, indir = wls[a["wl"]]
                outdir = os.path.join(rundir, "out_" + a["out"])
                outs[a["out"]] = outdir
                o = dict(a.get("opts") or {})
                o["threads"] = 1
                p2 = dict(paths)
                if o.get("gtf_repr") == "db":
                    # pre-built database supplied by the user: converted by the harness with real gffutils
                    dbp = os.path.join(indir, "genes_prebuilt%s.db" % ("_c" if o.get("complete_genedb") else ""))
                    if not os.path.exists(dbp):
                        import gffutils, warnings
                        with warnings.catch_warnings():
                            warnings.simplefilter("ignore")
                            gffutils.create_db(paths["gtf"], dbp, force=True, keep_order=True, merge_strategy='error',
                                               sort_attribute_values=True,
                                               disable_infer_transcripts=bool(o.get("complete_genedb")),
                                               disable_infer_genes=bool(o.get("complete_genedb")))
                    p2["db"] = dbp
                argv, prefixes = make_argv(truth, p2, o, outdir, indir)
                if a.get("opts", {}).get("resume"):
                    # continue the (killed) earlier run into this folder
                    argv = ["--resume", "-o", outdir]
                # "<shared>" in extra options stands for a folder that all actors of the session have in common
                argv = [x.replace("<shared>", os.path.join(rundir, "shared_folder")) if isinstance(x, str) else x for x in argv]
                actors.append({"argv": argv, "log": "step%d_%s.log" % (si, a["out"])})
                meta.append((a, truth, paths, outdir, o, prefixes))
                if (outdir, "<out_%s>" % a["out"]) not in dirs:
                    dirs.append((outdir, "<out_%s>" % a["out"]))
            sched = step.get("sched") or args.get("sched")
            r = simrun.sim_multi(actors, rundir, home, sched=sched, mtimes=mtimes, dirs=dirs, on_event=on_event,
                                 fault=step.get("fault"),
                                 # first use of a reference that has no index yet: the index next to the (shared) reference is
                                 # a shared path as well
                                 shared=[os.path.join(home, ".config", "IsoQuant"), ".db", ".fai"] if args.get("cold_fai") else None)
            clock[0] = max([clock[0]] + [int(v) for v in mtimes.values()]) + 1
            traces.append(r["trace"])
            all_picks.append(r["picks"])
            for k, v in r["probes"].items():
                probes[k] = probes.get(k, 0) + v
            out["events"] += r["events"]
            sres = {"actors": [], "harness_error": r["harness_error"],
                    "killed": [e for e in r["trace"] if e[0] == "kill_actor"],
                    "during_fired": bool(step.get("during")) and during["todo"] is None}
            during["todo"] = None       # an edit that did not fire during this run never fires later
            for ai, (a, truth, paths, outdir, o, prefixes) in enumerate(meta):
                chroms = [c for c, _ in truth["chroms"]]
                files, residue = outputs.collect(outdir, chroms)
                log = ""
                try:
                    with open(os.path.join(rundir, actors[ai]["log"]), "r", errors="replace") as f:
                        log = f.read()
                except OSError:
                    pass
                used = re.findall(r"Loading gene database from (\S+)", log)
                code = r["exit_codes"].get(ai)
                ar = {"out": a["out"], "exit": code, "digests": outputs.digests(files), "db_used": used[-1] if used else None}
                if code != 0:
                    ar["failure_site"] = failure_site(log)
                    # did this actor test the existence of a database in ANOTHER run's folder before it failed?
                    own = None
                    for dpath, dname in dirs:
                        if dpath == outdir:
                            own = dname
                    ar["foreign_db_exists_checked"] = any(
                        e[0] == "ev" and e[2] == ai and ":exists:" in e[3] and e[3].endswith(".db") and (own is None or own not in e[3])
                        for e in r["trace"])
                    keep = [l for l in log.split("\n") if " - INFO - " not in l]
                    ar["log_tail"] = "\n".join(keep[-14:])[-1500:]
                # the database is digested after the session: meaningless if a PEER removed / re-created that file during the step
                tl_used = None
                if used:
                    for dpath, dname in dirs:
                        if used[-1].startswith(dpath + os.sep):
                            tl_used = dname + used[-1][len(dpath):]
                peer_rewrote = bool(tl_used) and any(e[0] == "ev" and e[2] != ai and e[3].split(":", 1)[1] == "remove:" + tl_used
                                                     for e in r["trace"])
                ar["db_rewritten_by_peer"] = peer_rewrote
                if used and os.path.exists(used[-1]) and o.get("gtf_repr") != "db" and o.get("annotated", True) and not peer_rewrote:
                    try:
                        ar["db_digest"] = _db_digest(used[-1])
                    except Exception as e:
                        ar["db_digest"] = "unreadable:%s" % type(e).__name__
                    ar["fresh_digest"] = _fresh_digest(paths["gtf"], bool(o.get("complete_genedb")), rundir)
                    ar["db_foreign"] = not used[-1].startswith(outdir)
                if used and not used[-1].startswith(outdir):
                    # did this actor validate the foreign database (getmtime) after another actor had already started to modify
                    # it, against a registration read before that actor registered the new state?
                    tl = None
                    for dpath, dname in dirs:
                        if used[-1].startswith(dpath + os.sep):
                            tl = dname + used[-1][len(dpath):]
                    cfg_read = check = None
                    mod_start = rereg = None
                    for e in r["trace"]:
                        if e[0] != "ev":
                            continue
                        seq, slot, label = e[1], e[2], e[3]
                        kind_path = label.split(":", 1)[1]
                        if slot == ai:
                            if kind_path.startswith("open:r:") and kind_path.endswith("db_config.json") and check is None:
                                cfg_read = seq
                            if tl and kind_path == "getmtime:" + tl and check is None:
                                check = seq
                        else:
                            if tl and kind_path in ("remove:" + tl, "open:w:" + tl) and mod_start is None:
                                mod_start = seq
                            if kind_path.startswith("rename:") and kind_path.endswith("db_config.json") and mod_start is not None \
                                    and rereg is None:
                                rereg = seq
                    ar["adopted_modified"] = bool(check is not None and mod_start is not None and mod_start < check and
                                                  (rereg is None or (cfg_read is not None and cfg_read < rereg)))
                sres["actors"].append(ar)
            # cache files well-formed at the end of the step
            cfgdir = os.path.join(home, ".config", "IsoQuant")
            bad = []
            if os.path.isdir(cfgdir):
                for fn in sorted(os.listdir(cfgdir)):
                    if not fn.endswith(".json"):
                        continue        # temporary files of a writer (left behind when it is killed) are not cache files
                    try:
                        with open(os.path.join(cfgdir, fn)) as f:
                            json.load(f)
                    except Exception as e:
                        bad.append("%s: %s" % (fn, type(e).__name__))
            sres["cache_malformed"] = bad
            out["steps"].append(sres)
        out["trace_sha"] = simrun.trace_digest(traces)
        out["picks"] = all_picks
        out["probes"] = probes
        out["wall"] = time.time() - t0
        if "trace" in (args.get("want") or ()):
            out["trace"] = traces
        return out
    finally:
        if not args.get("keep"):
            shutil.rmtree(rundir, ignore_errors=True)


def _snapshot_dirs(dirs):
    for d in dirs:
        shutil.rmtree(d + ".snapshot", ignore_errors=True)
        shutil.copytree(d, d + ".snapshot")


def _restore_dirs(dirs):
    for d in dirs:
        shutil.rmtree(d)
        os.rename(d + ".snapshot", d)


def reuse(args):
    """C15 pipeline level: run with --keep_tmp, then a second invocation with --read_assignments <saved prefix>;
    returns both digests (GTF title line dropped: the experiment name necessarily differs)"""
    import re
    t0 = time.time()
    rundir = new_rundir("u")
    try:
        indir = os.path.join(rundir, "in")
        o1 = dict(args.get("opts") or {})
        o1["keep_tmp"] = True
        truth, paths = build_inputs(args.get("spec"), o1, indir)
        r1 = run_once(rundir, truth, paths, o1, sched=args.get("sched"), bufsize=args.get("bufsize", 8192), logname="first.log")
        chroms = [c for c, _ in truth["chroms"]]

        multi = len(r1["prefixes"]) > 1

        def norm(outdir):
            """single experiment: {file class: digest}; several: {"<folder>/<file class>": digest} (combined_* tables carry the
            experiment names as column titles and are left out)"""
            files, _ = outputs.collect(outdir, chroms)
            out = {}
            for k, v in files.items():
                v = b"\n".join(l for l in v.split(b"\n") if not re.match(rb"^# \S+ IsoQuant generated GTF$", l))
                if not multi:
                    out[common_file_class(k)] = hashlib.sha256(v).hexdigest()
                elif "/" in k:
                    out[k.split("/")[0] + "/" + common_file_class(k)] = hashlib.sha256(v).hexdigest()
            return out
        d1 = norm(r1["outdir"])
        res = {"first": {"exit": r1["exit"], "digests": d1, "events": r1["events"], "prefixes": r1["prefixes"]}}
        if r1["exit"] != 0:
            res["first"]["log_tail"] = _log_tail(rundir, "first.log")
            return res
        out2 = os.path.join(rundir, "out2")
        o2 = dict(args.get("opts2") or args.get("opts") or {})
        argv, _ = make_argv(truth, paths, dict(o2, keep_tmp=False), out2, indir)
        # strip the alignment inputs, add the saved assignments
        for flag in ("--bam", "--yaml", "--bam_list"):
            if flag in argv:
                i = argv.index(flag)
                j = i + 1
                while j < len(argv) and not argv[j].startswith("-"):
                    j += 1
                del argv[i:j]
        argv += ["--read_assignments"] + [os.path.join(r1["outdir"], p, "aux", p + ".save") for p in r1["prefixes"]]
        hist = args.get("restart_history")
        if hist:
            # history of restarts from the SAME saved assignments: an earlier restart (other options; complete, or killed at
            # hist["earlier_fault"]) into the same folder, then the restart under test is killed at hist["fault"] and resumed
            eo = dict(o2)
            eo.update(hist.get("earlier_opts") or {})
            eargv, _ = make_argv(truth, paths, dict(eo, keep_tmp=False), out2, indir)
            for flag in ("--bam", "--yaml", "--bam_list"):
                if flag in eargv:
                    i = eargv.index(flag)
                    j = i + 1
                    while j < len(eargv) and not eargv[j].startswith("-"):
                        j += 1
                    del eargv[i:j]
            eargv += argv[argv.index("--read_assignments"):]
            ef = dict(hist["earlier_fault"]) if hist.get("earlier_fault") else None
            if ef and "index" not in ef:
                auxs = [os.path.join(r1["outdir"], p_, "aux") for p_ in r1["prefixes"]]
                _snapshot_dirs(auxs)
                pr = run_once(rundir, truth, paths, eo, sched=args.get("sched"), bufsize=args.get("bufsize", 8192),
                              argv_override=[os.path.join(rundir, "out_probe") if x == out2 else x for x in eargv], logname="probe0.log",
                              outdir=os.path.join(rundir, "out_probe"))
                _locate_fault(ef, pr["trace"])
                shutil.rmtree(os.path.join(rundir, "out_probe"), ignore_errors=True)
                _restore_dirs(auxs)
            if not hist.get("skip_earlier"):
                re_ = run_once(rundir, truth, paths, eo, sched=args.get("sched"), bufsize=args.get("bufsize", 8192),
                               argv_override=eargv, logname="earlier.log", outdir=out2, fault=ef)
                res["earlier"] = {"exit": re_["exit"], "crashed": re_["crashed"], "label": re_["crash_label"]}
            f2 = dict(hist["fault"])
            if "index" not in f2:
                # the probe must not change anything next to the saved assignments (that folder is shared with the run under test)
                auxs = [os.path.join(r1["outdir"], p_, "aux") for p_ in r1["prefixes"]]
                _snapshot_dirs(auxs)
                pr = run_once(rundir, truth, paths, o2, sched=args.get("sched2") or args.get("sched"), bufsize=args.get("bufsize", 8192),
                              argv_override=[os.path.join(rundir, "out_probe") if x == out2 else x for x in argv], logname="probe.log",
                              outdir=os.path.join(rundir, "out_probe"))
                _locate_fault(f2, pr["trace"])
                shutil.rmtree(os.path.join(rundir, "out_probe"), ignore_errors=True)
                _restore_dirs(auxs)
            rk = run_once(rundir, truth, paths, o2, sched=args.get("sched2") or args.get("sched"), bufsize=args.get("bufsize", 8192),
                          argv_override=argv, logname="killed.log", outdir=out2, fault=f2)
            res["killed"] = {"crashed": rk["crashed"], "label": rk["crash_label"], "index": f2.get("index"), "exit": rk["exit"]}
            bt = hist.get("between")
            if bt and rk["crashed"]:
                # while the run under test lies killed, ANOTHER restart from the same saved assignments works in its own output
                # folder and is killed there (or completes); the two share nothing but their input
                out3 = os.path.join(rundir, "out3")
                bargv = [out3 if x == out2 else x for x in argv]
                bf = dict(bt["fault"]) if bt.get("fault") else None
                if bf and "index" not in bf:
                    auxs = [os.path.join(r1["outdir"], p_, "aux") for p_ in r1["prefixes"]]
                    _snapshot_dirs(auxs)
                    pr = run_once(rundir, truth, paths, o2, sched=args.get("sched"), bufsize=args.get("bufsize", 8192),
                                  argv_override=[os.path.join(rundir, "out_probe") if x == out2 else x for x in argv],
                                  logname="probe_between.log", outdir=os.path.join(rundir, "out_probe"))
                    _locate_fault(bf, pr["trace"])
                    shutil.rmtree(os.path.join(rundir, "out_probe"), ignore_errors=True)
                    _restore_dirs(auxs)
                rb = run_once(rundir, truth, paths, o2, sched=args.get("sched"), bufsize=args.get("bufsize", 8192),
                              argv_override=bargv, logname="between.log", outdir=out3, fault=bf)
                res["between"] = {"crashed": rb["crashed"], "label": rb["crash_label"], "exit": rb["exit"]}
            if rk["crashed"]:
                argv = ["--resume", "-o", out2]
        r2 = run_once(rundir, truth, paths, o2, sched=args.get("sched2") or args.get("sched"), bufsize=args.get("bufsize", 8192),
                      argv_override=argv, logname="stdout.log", outdir=out2)
        res["second"] = {"exit": r2["exit"], "digests": norm(out2), "events": r2["events"], "trace_sha": simrun.trace_digest(r2["trace"]),
                         "placement": simrun.placement_key(r2["maps"])}
        if r2["exit"] != 0:
            res["second"]["log_tail"] = _log_tail(rundir)
            try:
                with open(os.path.join(rundir, "stdout.log"), "r", errors="replace") as f:
                    res["second"]["failure_site"] = failure_site(f.read())
            except OSError:
                pass
        res["events"] = r1["events"] + r2["events"]
        if args.get("restart_again") and r2["exit"] == 0:
            # the saved assignments are an input of the restart: a second restart from them (another folder) must work as well
            out3 = os.path.join(rundir, "out3")
            argv3 = [out3 if x == out2 else x for x in argv]
            r3 = run_once(rundir, truth, paths, o2, sched=args.get("sched2") or args.get("sched"), bufsize=args.get("bufsize", 8192),
                          argv_override=argv3, logname="again.log", outdir=out3)
            res["again"] = {"exit": r3["exit"], "digests": norm(out3), "events": r3["events"]}
            if r3["exit"] != 0:
                res["again"]["log_tail"] = _log_tail(rundir, "again.log")
                try:
                    with open(os.path.join(rundir, "again.log"), "r", errors="replace") as f:
                        res["again"]["failure_site"] = failure_site(f.read())
                except OSError:
                    pass
            res["events"] += r3["events"]
        res["wall"] = time.time() - t0
        return res
    finally:
        if not args.get("keep"):
            shutil.rmtree(rundir, ignore_errors=True)


def common_file_class(name):
    base = name.split("/")[-1]
    parts = base.split(".", 1)
    if len(parts) == 2 and not base.startswith("combined_"):
        return "<prefix>." + parts[1]
    return base


def folder_reuse(args):
    """C12 'F' clause: an output folder that was used with another reference of the same name is reused (--force, no --resume)
    with a plain-gzip reference; the result must equal a run of the same data with the plain FASTA in a fresh folder."""
    import gzip as _gz
    t0 = time.time()
    rundir = new_rundir("f")
    try:
        indir = os.path.join(rundir, "in")
        opts = dict(args.get("opts") or {})
        truth, paths = build_inputs(args.get("spec"), dict(opts, ref_gz=False), indir)
        chroms = [c for c, _ in truth["chroms"]]
        gzp = paths["fasta"] + ".gz"

        def write_gz(text):
            with open(gzp, "wb") as raw:
                with _gz.GzipFile(fileobj=raw, mode="wb", mtime=0) as f:
                    f.write(text.encode())
            for suf in (".fai", ".gzi"):
                if os.path.exists(gzp + suf):
                    os.remove(gzp + suf)
        with open(paths["fasta"]) as f:
            v2 = f.read()
        v1 = "\n".join(l if l.startswith(">") else l.translate(str.maketrans("ACGT", "TGCA")) for l in v2.split("\n"))
        paths["fasta_gz"] = gzp
        out = os.path.join(rundir, "out")
        res = {}
        write_gz(v1)
        r1 = run_once(rundir, truth, paths, dict(opts, ref_gz=True), sched=args.get("sched"), logname="first.log", outdir=out)
        res["first_exit"] = r1["exit"]
        write_gz(v2)
        if args.get("old_gz"):
            # the second reference file carries an OLDER time stamp than the unpacked copy the first run left behind
            # (cp -p / rsync -t / an archive): time stamps say nothing about which reference the copy belongs to
            st_ = os.stat(gzp)
            os.utime(gzp, (st_.st_mtime - 500000.0, st_.st_mtime - 500000.0))
        r2 = run_once(rundir, truth, paths, dict(opts, ref_gz=True), sched=args.get("sched"), logname="stdout.log", outdir=out)
        f2, _ = outputs.collect(out, chroms)
        second_oracles = None
        if args.get("oracles"):
            second_oracles = summarize(r2, rundir, truth, oracles=args["oracles"]).get("oracles")
        out3 = os.path.join(rundir, "out_fresh")
        r3 = run_once(rundir, truth, paths, dict(opts, ref_gz=False), sched=args.get("sched"), logname="fresh.log", outdir=out3,
                      home=os.path.join(rundir, "home_fresh"))
        f3, _ = outputs.collect(out3, chroms)
        res.update(second={"exit": r2["exit"], "digests": outputs.digests(f2)}, fresh={"exit": r3["exit"], "digests": outputs.digests(f3)},
                   events=r1["events"] + r2["events"] + r3["events"], trace_sha=simrun.trace_digest(r2["trace"]))
        if r2["exit"] != 0:
            res["second"]["log_tail"] = _log_tail(rundir)
        res["second"]["oracles"] = second_oracles
        res["wall"] = time.time() - t0
        return res
    finally:
        if not args.get("keep"):
            shutil.rmtree(rundir, ignore_errors=True)


# ---------------------------------------------------------------------------------------------------------------
# C20, second system: only the cache functions of the aligner path (index / BED / alignment caches), driven with stub
# artefacts because no aligner exists in the sandbox.  2-8 concurrent actors, each following the lookup -> build -> store
# cycle that DataSetReadMapper performs.
def _cachefn_actor(persona, rundir, home):
    """runs inside the forked actor (seams installed, HOME set).  Returns list of problem strings via a result file."""
    import argparse
    import isoquant
    from src import read_mapper
    problems = []
    a = argparse.Namespace(reference=persona["reference"], data_type=persona["data_type"], genedb=persona["genedb"],
                           clean_start=False, output=persona["out"], index=None, complete_genedb=False)
    isoquant.set_configs_directory(a)
    kmer = read_mapper.KMER_SIZE[a.data_type]

    def read_tag(path):
        with open(path) as f:
            return f.read().strip()

    def tag_of(path):
        with open(path) as f:
            return hashlib.sha256(f.read().encode()).hexdigest()[:10]
    os.makedirs(persona["out"], exist_ok=True)
    ref_tag = tag_of(persona["reference"])
    idx = read_mapper.find_stored_index(a)
    if idx is None:
        idx = os.path.join(persona["out"], "ref_k%s_idx" % kmer)
        with open(idx, "w") as f:
            f.write("index|%s|k%s\n" % (ref_tag, kmer))
        read_mapper.store_index(idx, a)
    else:
        t = read_tag(idx)
        if t != "index|%s|k%s" % (ref_tag, kmer):
            problems.append("index cache returned %s with content %r for reference tag %s k%s" % (idx, t, ref_tag, kmer))
    a.index = idx
    gdb_tag = tag_of(persona["genedb"])
    bed = read_mapper.find_stored_bed(a)
    if bed is None:
        bed = os.path.join(persona["out"], "genes.bed")
        with open(bed, "w") as f:
            f.write("bed|%s\n" % gdb_tag)
        read_mapper.store_bed(bed, a)
    else:
        t = read_tag(bed)
        if t != "bed|%s" % gdb_tag:
            problems.append("BED cache returned %s with content %r for annotation tag %s" % (bed, t, gdb_tag))
    if persona.get("db2gtf"):
        # the db -> GTF direction of the annotation cache (used for the STARlong aligner); the converter is a stub that
        # writes the tag of the database it was given, the cache logic (convert_db) is the real code
        from src import gtf2db as _g

        def _stub_db2gtf(db, gtf, _=None):
            with open(gtf, "w") as f:
                f.write("gtf|%s\n" % tag_of(db))
        real = _g.db2gtf
        _g.db2gtf = _stub_db2gtf
        try:
            gtf = _g.convert_db_to_gtf(a)
        finally:
            _g.db2gtf = real
        t = read_tag(gtf)
        if t != "gtf|%s" % gdb_tag:
            problems.append("annotation cache (db2gtf) returned %s with content %r for database tag %s" % (gtf, t, gdb_tag))
    idx_tag = read_tag(idx)
    bed_tag = read_tag(bed)
    for fq in persona["fastqs"]:
        fq_tag = tag_of(fq)
        bam = read_mapper.find_stored_alignment(fq, bed, a)
        want = "aln|%s|%s|%s" % (fq_tag, idx_tag, bed_tag)
        if bam is None:
            bam = os.path.join(persona["out"], os.path.basename(fq) + ".bam")
            with open(bam, "w") as f:
                f.write(want + "\n")
            read_mapper.store_alignment(bam, fq, bed, a)
        else:
            t = read_tag(bam)
            if t != want:
                problems.append("alignment cache returned %s with content %r, expected %r" % (bam, t, want))
    return problems


def cache_functions(args):
    """args: personas [{ref: i, data_type, genedb: j, fastqs: [k..], out: name}], sched, n_inputs"""
    import json as _json
    from .engine import Hub, Templater, HarnessError, become_subreaper
    t0 = time.time()
    rundir = new_rundir("k")
    try:
        become_subreaper()
        home = os.path.join(rundir, "home")
        os.makedirs(home)
        inp = os.path.join(rundir, "inputs")
        os.makedirs(inp)
        files = {}
        for kind, n in (("ref", 3), ("gdb", 3), ("fq", 4)):
            for i in range(n):
                p = os.path.join(inp, "%s%d.%s" % (kind, i, {"ref": "fa", "gdb": "db", "fq": "fastq"}[kind]))
                with open(p, "w") as f:
                    f.write("%s %d content\n" % (kind, i))
                files[(kind, i)] = p
                if kind in (args.get("same_mtime") or ()):
                    # files delivered with whole-second, identical time stamps (unpacked archive, cp -p, rsync -t)
                    os.utime(p, (1700000000, 1700000000))
        personas = []
        for k, pr in enumerate(args["personas"]):
            personas.append({"reference": files[("ref", pr["ref"])], "data_type": pr["data_type"],
                             "genedb": files[("gdb", pr["genedb"])], "fastqs": [files[("fq", q)] for q in pr["fastqs"]],
                             "db2gtf": pr.get("db2gtf", False),
                             "out": os.path.join(rundir, "out_%d" % k)})
        chooser = simrun.make_chooser(args.get("sched"))
        dirs = [(rundir, "<run>"), (home, "<home>")]
        hub = Hub(chooser, templ=Templater(dirs), step_cap=100000, wall_cap=60.0, nslots=max(2, len(personas)))
        cfg = os.path.join(home, ".config", "IsoQuant")
        shared = [cfg, rundir + os.sep + "out_"]
        sys.stdout.flush(); sys.stderr.flush()
        for i, ps in enumerate(personas):
            pid = os.fork()
            if pid == 0:
                code = 1
                try:
                    socks = hub.actor_socks()
                    for pr_ in hub.pairs:
                        pr_[0].close()
                    fd = os.open(os.path.join(rundir, "actor%d.log" % i), os.O_WRONLY | os.O_CREAT | os.O_APPEND, 0o644)
                    os.dup2(fd, 1); os.dup2(fd, 2)
                    os.environ["HOME"] = home
                    os.chdir(rundir)
                    from . import seams
                    seams.install(socks[i], socks, (), rundir, shared_prefixes=shared, logical_mtime=True, slot=i)
                    seams.hello()
                    seams._recv()
                    try:
                        probs = _cachefn_actor(ps, rundir, home)
                        code = 0
                    except BaseException:
                        import traceback
                        probs = ["actor raised: " + traceback.format_exc()[-800:]]
                        code = 3
                    with seams._real_open(os.path.join(rundir, "result%d.json" % i), "w") as f:
                        _json.dump(probs, f)
                    seams._send({"t": "bye", "code": code})
                finally:
                    os._exit(code)
            hub.register(i, pid, "actor%d" % i)
        hub.close_actor_side()
        err = None
        try:
            r = hub.run(tuple(range(len(personas))))
        except HarnessError as e:
            hub.kill_all()
            r = {}
            err = str(e)
        finally:
            hub.close()
        out = {"harness_error": err, "events": hub.ev_seq, "trace_sha": simrun.trace_digest(hub.trace), "picks": list(chooser.picks),
               "actors": [], "exit_codes": r.get("exit_codes")}
        for i in range(len(personas)):
            try:
                with open(os.path.join(rundir, "result%d.json" % i)) as f:
                    out["actors"].append(_json.load(f))
            except (OSError, ValueError):
                out["actors"].append(["actor produced no result (died?)"])
        bad = []
        if os.path.isdir(cfg):
            for fn in sorted(os.listdir(cfg)):
                if not fn.endswith(".json"):
                    continue
                try:
                    with open(os.path.join(cfg, fn)) as f:
                        _json.load(f)
                except Exception as e:
                    bad.append("%s: %s" % (fn, type(e).__name__))
        out["cache_malformed"] = bad
        out["wall"] = time.time() - t0
        return out
    finally:
        if not args.get("keep"):
            shutil.rmtree(rundir, ignore_errors=True)
