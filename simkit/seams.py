"""Actor-side seams: everything an IsoQuant process does that the simulator must own.

Installed inside the forked *actor* process (IsoQuant main process, SimPool worker, or a concurrent-run actor).
Every tracked file-system mutation becomes an event: the actor sends a message to the hub and blocks until the hub
answers.  Exactly one actor runs at any time.
"""
import builtins
import glob as _glob
import io
import json
import os
import pickle
import shutil
import sqlite3
import sys
import time
import traceback

_real_open = builtins.open
_real_remove = os.remove
_real_unlink = os.unlink
_real_rename = os.rename
_real_replace = os.replace
_real_makedirs = os.makedirs
_real_glob = _glob.glob
_real_rmtree = shutil.rmtree
_real_sleep = time.sleep
_real_exists = os.path.exists
_real_getmtime = os.path.getmtime
_real_isfile = os.path.isfile
_real_sqlite_connect = sqlite3.connect

STATE = {
    "chan": None,          # socket of this actor
    "slots": None,         # all actor-side sockets (main only; workers pick theirs at fork)
    "slot": 0,
    "role": "main",
    "track": (),           # path prefixes whose mutations are events
    "shared": (),          # path prefixes whose *reads* are events too (shared cache, C20/C12)
    "untracked_suffix": ("isoquant.log", "isoquant.log.old"),
    "bufsize": 8192,
    "rbuf": b"",
    "results_dir": None,
    "map_no": 0,
    "logical_mtime": False,
    "pool_used": 0,
}


# ------------------------------------------------------------------ channel
def _send(msg):
    STATE["chan"].sendall((json.dumps(msg) + "\n").encode())


def _recv():
    buf = STATE["rbuf"]
    while b"\n" not in buf:
        chunk = STATE["chan"].recv(65536)
        if not chunk:
            # hub vanished: die quietly
            os._exit(99)
        buf += chunk
    line, _, rest = buf.partition(b"\n")
    STATE["rbuf"] = rest
    return json.loads(line)


def call(msg):
    """park: send msg, wait for the hub's answer"""
    _send(msg)
    return _recv()


def event(kind, path, **extra):
    """a schedulable (and crashable) event.  Returns the hub's answer; performs post-report if asked."""
    m = {"t": "ev", "k": kind, "p": path}
    m.update(extra)
    ans = call(m)
    if ans.get("a") == "raise":
        # simulated SIGINT: the interpreter raises KeyboardInterrupt out of the interrupted system call
        raise KeyboardInterrupt()
    return ans


def after_event(ans):
    if ans.get("a") == "go_report":
        call({"t": "done"})
    if ans.get("raise_after"):
        raise KeyboardInterrupt()


# ------------------------------------------------------------------ path classification
def _abspath(p):
    try:
        if isinstance(p, bytes):
            p = p.decode()
        if isinstance(p, int):
            return None
        return os.path.abspath(os.fspath(p))
    except TypeError:
        return None


def tracked(p):
    ap = _abspath(p)
    if ap is None:
        return None
    if ap.endswith(STATE["untracked_suffix"]):
        return None
    for pre in STATE["track"]:
        if ap.startswith(pre):
            return ap
    return None


def shared(p):
    ap = _abspath(p)
    if ap is None:
        return None
    for pre in STATE["shared"]:
        if ap.startswith(pre) or ap.endswith(pre):
            return ap
    return None


# ------------------------------------------------------------------ write handles
class EvFileIO(io.FileIO):
    """raw file whose every write(2) is an event ('write'): buffer spills and the flush at close"""

    def __init__(self, path, mode, evpath):
        super().__init__(path, mode)
        self._evpath = evpath

    def write(self, b):
        n = len(b) if not isinstance(b, memoryview) else b.nbytes
        if n == 0:
            return super().write(b)
        ans = event("write", self._evpath, n=n)
        r = super().write(b)
        after_event(ans)
        return r


def _is_write_mode(mode):
    return any(c in mode for c in "wax+")


def sim_open(file, mode="r", buffering=-1, encoding=None, errors=None, newline=None, closefd=True, opener=None):
    if isinstance(file, int) or opener is not None:
        return _real_open(file, mode, buffering, encoding, errors, newline, closefd, opener)
    wr = _is_write_mode(mode)
    ap = tracked(file) if wr else None
    sp = shared(file)
    if ap is None and sp is None:
        return _real_open(file, mode, buffering, encoding, errors, newline, closefd, opener)
    if not wr:
        # read of a shared path: schedulable, not a mutation
        ans = event("open:r", sp)
        try:
            f = _real_open(file, mode, buffering, encoding, errors, newline, closefd, opener)
        finally:
            after_event(ans)
        return f
    evp = ap or sp
    binary = "b" in mode
    rawmode = mode.replace("b", "").replace("t", "")
    ans = event("open:" + rawmode, evp)
    raw = EvFileIO(file, rawmode, evp)
    after_event(ans)
    bs = STATE["bufsize"]
    if buffering == 0 and binary:
        return raw
    if "+" in rawmode:
        buf = io.BufferedRandom(raw, buffer_size=bs)
    else:
        buf = io.BufferedWriter(raw, buffer_size=bs)
    if binary:
        return buf
    line_buffering = buffering == 1
    # the text layer keeps its own pending chunk in CPython (8 KiB); when the simulated buffer is small we
    # want the *total* user-space buffering to be small as well, so the text layer writes through.
    txt = io.TextIOWrapper(buf, encoding=encoding, errors=errors, newline=newline,
                           line_buffering=line_buffering, write_through=(bs < 8192))
    try:
        txt.mode = mode
    except AttributeError:
        pass
    return txt


def sim_remove(path, *a, **kw):
    ap = tracked(path) or shared(path)
    if ap is None:
        return _real_remove(path, *a, **kw)
    ans = event("remove", ap)
    r = _real_remove(path, *a, **kw)
    after_event(ans)
    return r


def sim_rename(src, dst, *a, **kw):
    ap = tracked(dst) or shared(dst)
    if ap is None:
        return _real_rename(src, dst, *a, **kw)
    ans = event("rename", ap, src=_abspath(src))
    r = _real_rename(src, dst, *a, **kw)
    after_event(ans)
    return r


def sim_replace(src, dst, *a, **kw):
    ap = tracked(dst) or shared(dst)
    if ap is None:
        return _real_replace(src, dst, *a, **kw)
    ans = event("rename", ap, src=_abspath(src))
    r = _real_replace(src, dst, *a, **kw)
    after_event(ans)
    return r


def sim_makedirs(name, mode=0o777, exist_ok=False):
    ap = tracked(name) or shared(name)
    if ap is None or _real_exists(name):
        return _real_makedirs(name, mode, exist_ok)
    ans = event("makedirs", ap)
    r = _real_makedirs(name, mode, exist_ok)
    after_event(ans)
    return r


def sim_rmtree(path, *a, **kw):
    ap = tracked(path)
    if ap is None:
        return _real_rmtree(path, *a, **kw)
    ans = event("rmtree", ap)
    r = _real_rmtree(path, *a, **kw)
    after_event(ans)
    return r


def sim_glob(pathname, *a, **kw):
    res = _real_glob(pathname, *a, **kw)
    ap = tracked(pathname)
    if ap is None or len(res) < 2:
        return res
    res = sorted(res)
    ans = call({"t": "glob", "n": len(res), "p": ap})
    perm = ans["perm"]
    return [res[i] for i in perm]


def sim_sleep(secs):
    """simulated time: the actor is not runnable until the hub's clock has advanced by `secs` (it advances only when nothing
    else can run); costs no wall time"""
    if STATE.get("chan") is None:
        return None
    try:
        d = float(secs)
    except (TypeError, ValueError):
        d = 0.0
    ans = event("sleep", "<sleep>", d=d)
    after_event(ans)
    return None


# ---- shared-cache seams (C20 / C12): exists / getmtime are pre-emption points; mtimes are logical
def sim_exists(path):
    sp = shared(path)
    if sp is None:
        return _real_exists(path)
    ans = event("exists", sp)
    r = _real_exists(path)
    after_event(ans)
    return r


def sim_getmtime(path):
    sp = shared(path)
    if sp is None or not STATE["logical_mtime"]:
        return _real_getmtime(path)
    ans = call({"t": "ev", "k": "getmtime", "p": sp})
    if not _real_exists(path):
        after_event(ans)
        return _real_getmtime(path)   # raises like the real one
    after_event(ans)
    if sp.endswith(".fai"):
        # compared with the time stamp of the (unshared, really written) reference: real time
        return _real_getmtime(path)
    return float(ans.get("mtime", 0))


class SimConnection(sqlite3.Connection):
    _evpath = None

    def commit(self):
        if self._evpath:
            ans = event("sqlite-commit", self._evpath, dirty=bool(self.in_transaction))
            r = super().commit()
            after_event(ans)
            return r
        return super().commit()


def sim_sqlite_connect(database, *a, **kw):
    sp = shared(database) if isinstance(database, (str, bytes, os.PathLike)) else None
    tp = tracked(database) if isinstance(database, (str, bytes, os.PathLike)) else None
    if sp is None and tp is None:
        return _real_sqlite_connect(database, *a, **kw)
    kw.setdefault("factory", SimConnection)
    ans = event("sqlite-connect", sp or tp, new=not _real_exists(database))
    conn = _real_sqlite_connect(database, *a, **kw)
    try:
        conn._evpath = sp or tp
    except AttributeError:
        pass
    after_event(ans)
    return conn


# ------------------------------------------------------------------ SimPool
class _ExcResult:
    def __init__(self, exc, tb):
        self.exc = exc
        self.tb = tb


class SimPool:
    """Stand-in for concurrent.futures.ProcessPoolExecutor used as `with Pool(max_workers=W) as p: p.map(...)`.

    Workers are real forked processes created at map() time (inherit the parent's process-global state as
    fork-started pool workers do), arguments and results cross a pickle boundary, a worker keeps its process
    state across the tasks it executes, tasks leave the queue in FIFO order; *which* worker takes the next task
    and whose file operation runs next is decided by the hub.
    """

    def __init__(self, max_workers=None, **kw):
        self.max_workers = max_workers or os.cpu_count() or 1

    def __enter__(self):
        return self

    def __exit__(self, *exc):
        return False

    def shutdown(self, wait=True, **kw):
        pass

    def submit(self, fn, *args, **kwargs):
        raise NotImplementedError("SimPool models map() only; IsoQuant does not call submit()")

    def map(self, fn, *iterables, timeout=None, chunksize=1):
        tasks = list(zip(*iterables))
        STATE["pool_used"] += 1
        STATE["map_no"] += 1
        map_no = STATE["map_no"]
        n = len(tasks)
        if n == 0:
            return iter(())
        payloads = [pickle.dumps((fn, t), protocol=pickle.HIGHEST_PROTOCOL) for t in tasks]
        w = min(self.max_workers, n, len(STATE["slots"]) - 1)
        rdir = STATE["results_dir"]
        sys.stdout.flush(); sys.stderr.flush()
        pids = []
        for j in range(1, w + 1):
            pid = os.fork()
            if pid == 0:
                _worker_main(j, payloads, map_no, rdir)
                os._exit(0)
            pids.append(pid)
        ans = call({"t": "map", "n": n, "w": w, "pids": pids, "fn": getattr(fn, "__name__", "?")})
        for pid in pids:
            try:
                os.waitpid(pid, 0)
            except ChildProcessError:
                pass
        if ans.get("a") == "raise":
            # SIGINT arrived while this process waited for its pool; the workers have drained the queue
            for i in range(n):
                try:
                    _real_remove(os.path.join(rdir, "r%d_%d.pkl" % (map_no, i)))
                except OSError:
                    pass
            raise KeyboardInterrupt()
        results = []
        for i in range(n):
            with _real_open(os.path.join(rdir, "r%d_%d.pkl" % (map_no, i)), "rb") as f:
                results.append(pickle.load(f))
        for i in range(n):
            _real_remove(os.path.join(rdir, "r%d_%d.pkl" % (map_no, i)))

        def gen():
            for r in results:
                if isinstance(r, _ExcResult):
                    sys.stderr.write(r.tb)
                    raise r.exc
                yield r
        return gen()


def _worker_main(j, payloads, map_no, rdir):
    STATE["chan"] = STATE["slots"][j]
    STATE["slot"] = j
    STATE["role"] = "worker"
    STATE["rbuf"] = b""
    ans = call({"t": "idle", "pid": os.getpid()})
    while ans.get("a") == "task":
        i = ans["i"]
        try:
            fn, args = pickle.loads(payloads[i])
            res = fn(*args)
        except BaseException as e:   # noqa: the real pool also ships any exception back
            if isinstance(e, SystemExit):
                res = _ExcResult(RuntimeError("worker SystemExit %r" % (e.code,)), traceback.format_exc())
            else:
                res = _ExcResult(e, traceback.format_exc())
        try:
            blob = pickle.dumps(res, protocol=pickle.HIGHEST_PROTOCOL)
        except Exception as e:
            blob = pickle.dumps(_ExcResult(RuntimeError("unpicklable result: %r" % (e,)), traceback.format_exc()))
        with _real_open(os.path.join(rdir, "r%d_%d.pkl" % (map_no, i)), "wb") as f:
            f.write(blob)
        del res
        ans = call({"t": "task_done", "i": i})
    try:
        sys.stdout.flush(); sys.stderr.flush()
    except Exception:
        pass
    _send({"t": "bye"})
    os._exit(0)


# ------------------------------------------------------------------ installation
def install(chan, slots, track, results_dir, bufsize=8192, shared_prefixes=(), logical_mtime=False, role="main",
            slot=0):
    STATE.update(chan=chan, slots=slots, track=tuple(track), results_dir=results_dir, bufsize=bufsize,
                 shared=tuple(shared_prefixes), logical_mtime=logical_mtime, role=role, slot=slot, rbuf=b"")
    builtins.open = sim_open
    io.open = sim_open
    os.remove = sim_remove
    os.unlink = sim_remove
    os.rename = sim_rename
    os.replace = sim_replace
    os.makedirs = sim_makedirs
    shutil.rmtree = sim_rmtree
    _glob.glob = sim_glob
    time.sleep = sim_sleep
    if shared_prefixes:
        os.path.exists = sim_exists
        import genericpath
        os.path.getmtime = sim_getmtime
        sqlite3.connect = sim_sqlite_connect
        sqlite3.dbapi2.connect = sim_sqlite_connect
    # the pool: patch by identity everywhere it is bound
    import concurrent.futures
    import concurrent.futures.process
    real = concurrent.futures.process.ProcessPoolExecutor
    concurrent.futures.ProcessPoolExecutor = SimPool
    concurrent.futures.process.ProcessPoolExecutor = SimPool
    for name, mod in list(sys.modules.items()):
        if mod is None or not (name == "src" or name.startswith("src.") or name == "isoquant"):
            continue
        for attr, val in list(vars(mod).items()):
            if val is real:
                setattr(mod, attr, SimPool)


def hello():
    _send({"t": "hello", "pid": os.getpid()})
