"""Self-tests of the simulator itself: determinism (same seed twice -> same trace and outputs, across harness hash seeds
and lane counts) and fidelity (SimPool/seams vs the real pool and real open)."""
import json
import os
import random
import subprocess
import sys

HERE = os.path.dirname(os.path.dirname(os.path.abspath(__file__)))
if HERE not in sys.path:
    sys.path.insert(0, HERE)


def _jobs(n_seeds, base=0):
    from simkit.checks import common
    from simkit import workload
    jobs = []
    for i in range(n_seeds):
        rng = random.Random("selftest/%d" % (base + i))
        spec = workload.random_spec(rng)
        opts = common.random_opts(rng, spec)
        cell = common.random_cell(rng)
        jobs.append((cell["hashseed"], "scenarios:pipeline", common.job_args(spec, opts, cell, inputs_sha=True)))
        # crash + resume too
        if i % 2 == 0:
            a = common.job_args(spec, opts, cell)
            if i % 4 == 0:
                a["fault"] = {"kind": "kill", "index": 20 + rng.randrange(200), "phase": rng.choice(["before", "after"])}
            else:
                # stage-relative kill (located by a probe run inside the job)
                a["fault"] = {"kind": "kill", "stage": rng.choice(["collect", "construct", "merge"]), "frac": round(rng.random(), 3),
                              "phase": rng.choice(["before", "after"])}
            if i % 8 in (2, 4):
                # SIGINT instead of SIGKILL: the unwinding (finally blocks, destructors, exit handlers) is scheduled as well
                a["fault"]["kind"] = "interrupt"
                a["fault"]["phase"] = "before"
            jobs.append((cell["hashseed"], "scenarios:crash_resume", a))
        if i % 3 == 0:
            from simkit.checks import c20
            wls, steps, sched, fam = c20.gen_session(rng, True)
            jobs.append((0, "scenarios:cache_session", {"workloads": wls, "steps": steps, "sched": sched}))
        if i % 6 == 1:
            personas = [{"ref": rng.choice([0, 1]), "data_type": "nanopore", "genedb": rng.choice([0, 1]),
                         "fastqs": [rng.randrange(4)], "db2gtf": rng.random() < 0.5} for _ in range(3)]
            jobs.append((0, "scenarios:cache_functions", {"personas": personas, "sched": {"policy": "random", "seed": i},
                                                          "same_mtime": ["gdb"] if i % 12 == 1 else None}))
        if i % 4 == 0:
            mname = ["c08", "c15", "c18", "c12", "c05", "c09"][(i // 4) % 6]
            jobs.append((i % 3, "machines.%s:run" % mname, {"seed": 1000 + i, "max_examples": 25}))
    return jobs


def _run(jobs, lanes):
    from simkit.orch import Orchestrator
    out = {}
    with Orchestrator(lanes=lanes) as o:
        ids = {}
        for k, (h, fn, a) in enumerate(jobs):
            ids[o.submit(h, fn, a)] = k
        for jid, tag, r in o.results():
            k = ids[jid]
            if not r.get("ok"):
                out[k] = {"err": r.get("err")}
            else:
                rr = r["res"]
                if "examples" in rr:      # machine job
                    out[k] = {"examples": rr.get("examples"), "distinct": rr.get("distinct"), "fail": bool(rr.get("fail")),
                              "known": sorted((rr.get("known") or {}).keys())}
                elif "actors" in rr and "cache_malformed" in rr:      # cache function actors
                    out[k] = {"trace": rr.get("trace_sha"), "events": rr.get("events"), "actors": rr.get("actors"),
                              "codes": rr.get("exit_codes")}
                elif "steps" in rr and isinstance(rr.get("steps"), list):     # cache session
                    out[k] = {"trace": rr.get("trace_sha"), "events": rr.get("events"),
                              "actors": [[(a.get("exit"), a.get("digests")) for a in st.get("actors", [])] for st in rr["steps"]]}
                else:
                    out[k] = {"trace": rr.get("trace_sha"), "digests": rr.get("digests"), "exit": rr.get("exit"),
                              "inputs": rr.get("inputs_sha"), "events": rr.get("events"), "crash": rr.get("crash")}
    return out


def determinism(n_seeds=20, quiet=False, base=0):
    """runs every job twice in this process (different lane counts) and once more in a fresh interpreter with another
    harness hash seed; all three must agree"""
    jobs = _jobs(n_seeds, base)
    a = _run(jobs, 4)
    b = _run(jobs, 16)
    env = dict(os.environ, PYTHONHASHSEED="7", PYTHONPATH=HERE)
    p = subprocess.run([sys.executable, "-c",
                        "import sys, json; sys.path.insert(0, %r); from simkit import selftest; "
                        "print('RESULT' + json.dumps(selftest._run(selftest._jobs(%d, %d), 8)))" % (HERE, n_seeds, base)],
                       env=env, capture_output=True, text=True, timeout=1800)
    c = None
    for line in p.stdout.splitlines():
        if line.startswith("RESULT"):
            c = {int(k): v for k, v in json.loads(line[6:]).items()}
    bad = 0
    if c is None:
        print("fresh-interpreter run failed:", p.stderr[-2000:])
        return 1
    a = {int(k): v for k, v in json.loads(json.dumps(a)).items()}
    b = {int(k): v for k, v in json.loads(json.dumps(b)).items()}
    for k in range(len(jobs)):
        if not (a.get(k) == b.get(k) == c.get(k)) or "err" in (a.get(k) or {"err": 1}):
            bad += 1
            print("NONDETERMINISTIC or failed job %d: %s\n  a=%s\n  b=%s\n  c=%s" % (
                k, json.dumps(jobs[k])[:300], json.dumps(a.get(k))[:400], json.dumps(b.get(k))[:400],
                json.dumps(c.get(k))[:400]))
    if not quiet or bad:
        print("determinism self-test: %d jobs x 3 executions, %d mismatches" % (len(jobs), bad))
    return 1 if bad else 0


def fidelity(n=4):
    """unchanged tree: real pool + real open + real processes vs the simulator with a neutral schedule"""
    import shutil
    from simkit import workload, scenarios, outputs
    from simkit.checks import common
    bad = 0
    for i in range(n):
        rng = random.Random("fidelity/%d" % i)
        spec = workload.random_spec(rng)
        opts = common.random_opts(rng, spec)
        opts["threads"] = rng.choice([2, 3, 4])
        d = "/dev/shm/verif-fidelity-%d" % os.getpid()
        shutil.rmtree(d, ignore_errors=True)
        truth, paths = scenarios.build_inputs(spec, opts, d + "/in")
        argv, prefixes = scenarios.make_argv(truth, paths, opts, d + "/out", d + "/in")
        env = dict(os.environ, HOME=d + "/home", PYTHONHASHSEED="0")
        os.makedirs(d + "/home")
        p = subprocess.run([sys.executable, os.path.join(os.environ.get("ISOQUANT_REPO", "/repo"), "isoquant.py")] + argv, env=env, capture_output=True, text=True, cwd=d)
        chroms = [c for c, _ in truth["chroms"]]
        real, _ = outputs.collect(d + "/out", chroms)
        shutil.rmtree(d, ignore_errors=True)
        from simkit.orch import Orchestrator
        with Orchestrator(lanes=1) as o:
            o.submit(0, "scenarios:pipeline", {"spec": spec, "opts": opts, "sched": {"policy": "spread", "seed": 1},
                                               "bufsize": 8192, "want": ["files"]})
            (_, (_, r)), = o.run_all().items()
        sim = {k: v.encode() for k, v in r["res"]["files"].items()}
        df = outputs.diff(real, sim)
        print("fidelity %d: real exit %d, sim exit %s, %d files, diff=%s" % (i, p.returncode, r["res"]["exit"], len(real), df[:3]))
        if df or p.returncode != r["res"]["exit"]:
            bad += 1
    return 1 if bad else 0


if __name__ == "__main__":
    what = sys.argv[1] if len(sys.argv) > 1 else "determinism"
    if what == "determinism":
        sys.exit(determinism(int(sys.argv[2]) if len(sys.argv) > 2 else 20))
    sys.exit(fidelity(int(sys.argv[2]) if len(sys.argv) > 2 else 4))
