"""Fork server: one interpreter per string-hash seed.  Reads JSON job lines on stdin, runs each job in a forked
child (the child is the hub/scheduler process of that simulated execution), prints one JSON result line per job.

  job:    {"id": n, "fn": "scenarios:pipeline", "args": {...}, "timeout": seconds}
  result: {"id": n, "ok": true, "res": {...}} | {"id": n, "ok": false, "err": "...", "kind": "harness"}
"""
import faulthandler
import importlib
import json
import os
import select
import signal
import sys
import time
import traceback


def _child(fn_name, args, wfd):
    out = None
    try:
        mod, fn = fn_name.split(":")
        f = getattr(importlib.import_module("simkit." + mod), fn)
        res = f(args)
        out = json.dumps({"ok": True, "res": res})
    except BaseException:
        out = json.dumps({"ok": False, "err": traceback.format_exc()[-4000:], "kind": "harness"})
    try:
        with os.fdopen(wfd, "w") as w:
            w.write(out)
    finally:
        os._exit(0)


def serve():
    repo = os.environ.get("ISOQUANT_REPO", "/repo")
    sys.path.insert(0, repo)
    here = os.path.dirname(os.path.dirname(os.path.abspath(__file__)))
    if here not in sys.path:
        sys.path.insert(0, here)
    import warnings
    warnings.simplefilter("ignore")
    # warm imports (the pipeline modules and heavy deps) so that forked jobs start fast
    import simkit.scenarios  # noqa
    try:
        import isoquant  # noqa  (module import only; __main__ guard keeps it from running)
    except Exception:
        traceback.print_exc()
    from simkit.engine import become_subreaper, reap
    become_subreaper()
    sys.stdout.write(json.dumps({"ready": True, "hashseed": os.environ.get("PYTHONHASHSEED")}) + "\n")
    sys.stdout.flush()
    for line in sys.stdin:
        line = line.strip()
        if not line:
            continue
        job = json.loads(line)
        if job.get("quit"):
            break
        rfd, wfd = os.pipe()
        sys.stdout.flush()
        pid = os.fork()
        if pid == 0:
            os.close(rfd)
            try:
                os.setpgid(0, 0)
            except Exception:
                pass
            faulthandler.enable()
            _child(job["fn"], job.get("args", {}), wfd)
        os.close(wfd)
        timeout = job.get("timeout", 300)
        deadline = time.monotonic() + timeout
        chunks = []
        timed_out = False
        with os.fdopen(rfd, "rb") as r:
            while True:
                left = deadline - time.monotonic()
                if left <= 0:
                    timed_out = True
                    break
                rl, _, _ = select.select([r], [], [], min(left, 2.0))
                if rl:
                    c = os.read(r.fileno(), 1 << 20)
                    if not c:
                        break
                    chunks.append(c)
        if timed_out:
            try:
                os.killpg(pid, signal.SIGKILL)
            except Exception:
                try:
                    os.kill(pid, signal.SIGKILL)
                except Exception:
                    pass
        try:
            os.waitpid(pid, 0)
        except ChildProcessError:
            pass
        reap()
        if timed_out:
            out = {"ok": False, "err": "job timeout after %ss" % timeout, "kind": "timeout"}
        else:
            try:
                out = json.loads(b"".join(chunks).decode())
            except Exception:
                out = {"ok": False, "err": "job child died without result", "kind": "harness"}
        out["id"] = job["id"]
        sys.stdout.write(json.dumps(out) + "\n")
        sys.stdout.flush()


if __name__ == "__main__":
    serve()
