"""MANIFEST.setup_cmd: offline dependency check + short determinism self-test of the simulator."""
import os
import sys

HERE = os.path.dirname(os.path.dirname(os.path.abspath(__file__)))
sys.path.insert(0, HERE)


def main():
    import hypothesis, pysam, gffutils, pyfaidx, yaml, pandas  # noqa
    assert os.path.isdir(os.path.join(os.environ.get("ISOQUANT_REPO", "/repo"), "src")), "repo missing"
    os.makedirs(os.path.join(HERE, "evidence"), exist_ok=True)
    os.makedirs(os.path.join(HERE, "replays"), exist_ok=True)
    from simkit import selftest
    rc = selftest.determinism(n_seeds=3, quiet=True)
    if rc:
        print("determinism self-test FAILED")
        return 1
    print("setup ok: deps present, determinism self-test passed")
    return 0


if __name__ == "__main__":
    sys.exit(main())
