"""Run the real IsoQuant entry point as a simulated actor under a Hub."""
import gc
import hashlib
import json
import logging
import os
import random
import runpy
import sys

from . import seams
from .engine import Hub, PolicyChooser, ReplayChooser, Templater, HarnessError, become_subreaper

REPO = os.environ.get("ISOQUANT_REPO", "/repo")
POLICIES = ["random", "serial", "rr", "pct", "spread", "pile"]


def _actor_body(hub, slot, argv, home, cwd, logpath, track, bufsize, shared=(), logical_mtime=False, results_dir=None):
    """runs in the forked child; never returns"""
    code = 1
    try:
        hub.close_parent_side = None
        socks = hub.actor_socks()
        for p in hub.pairs:
            p[0].close()
        fd = os.open(logpath, os.O_WRONLY | os.O_CREAT | os.O_APPEND, 0o644)
        sys.stdout.flush(); sys.stderr.flush()
        os.dup2(fd, 1); os.dup2(fd, 2)
        os.close(fd)
        devnull = os.open(os.devnull, os.O_RDONLY)
        os.dup2(devnull, 0)
        os.environ["HOME"] = home
        os.chdir(cwd)
        if REPO not in sys.path:
            sys.path.insert(0, REPO)
        seams.install(socks[slot], socks, track, results_dir or cwd, bufsize=bufsize, shared_prefixes=shared,
                      logical_mtime=logical_mtime, slot=slot)
        seams.hello()
        seams._recv()
        sys.argv = [os.path.join(REPO, "isoquant.py")] + list(argv)
        try:
            runpy.run_path(os.path.join(REPO, "isoquant.py"), run_name="__main__")
            code = 0
        except SystemExit as e:
            c = e.code
            code = 0 if c is None else (c & 0xFF if isinstance(c, int) else 1)
        except BaseException:
            import traceback
            traceback.print_exc()
            code = 1
        try:
            logging.shutdown()
        except Exception:
            pass
        gc.collect()
        sys.stdout.flush(); sys.stderr.flush()
        seams._send({"t": "bye", "code": code})
    finally:
        os._exit(code)


def make_chooser(sched):
    """sched: {"policy":..., "seed":...} or {"picks": [...], "perms": [...]}"""
    if sched is None:
        sched = {"policy": "serial", "seed": 0}
    if "picks" in sched:
        return ReplayChooser(sched["picks"], sched.get("perms"))
    rng = random.Random("sched/%s/%s" % (sched.get("policy"), sched.get("seed", 0)))
    return PolicyChooser(rng, sched.get("policy", "random"), pct_d=sched.get("pct_d", 2),
                         horizon=sched.get("horizon", 400), starve=sched.get("starve"))


def sim_isoquant(argv, rundir, outdir, indir, sched=None, fault=None, bufsize=8192, chroms=(), prefixes=(),
                 home=None, logname="stdout.log", step_cap=200000, wall_cap=120.0):
    """one simulated IsoQuant process tree.  Returns dict(exit, crashed, trace, picks, perms, events, maps, ...)"""
    become_subreaper()
    home = home or os.path.join(rundir, "home")
    os.makedirs(home, exist_ok=True)
    resdir = os.path.join(rundir, "_results")
    os.makedirs(resdir, exist_ok=True)
    templ = Templater([(outdir, "<out>"), (indir, "<in>"), (home, "<home>")], chroms, prefixes)
    chooser = make_chooser(sched)
    hub = Hub(chooser, fault=fault, templ=templ, step_cap=step_cap, wall_cap=wall_cap)
    track = [outdir + os.sep, indir + os.sep, outdir]
    sys.stdout.flush(); sys.stderr.flush()
    pid = os.fork()
    if pid == 0:
        _actor_body(hub, 0, argv, home, rundir, os.path.join(rundir, logname), track, bufsize, results_dir=resdir)
    hub.close_actor_side()
    hub.register(0, pid, "main")
    err = None
    try:
        res = hub.run((0,))
    except HarnessError as e:
        hub.kill_all()
        res = {"exit": None, "crashed": False}
        err = str(e)
    finally:
        hub.close()
    res.update(trace=hub.trace, picks=list(chooser.picks), perms=list(getattr(chooser, "perms", [])),
               events=hub.ev_seq, maps=hub.maps, crash_label=hub.crash_label, harness_error=err,
               steps=hub.steps)
    return res


def trace_digest(trace):
    return hashlib.sha256(json.dumps(trace, sort_keys=True).encode()).hexdigest()


def event_labels(trace):
    """[(seq, slot, label, occurrence)] for 'ev' entries; occurrence = rank among equal labels"""
    seen = {}
    out = []
    for t in trace:
        if t[0] == "ev":
            _, seq, slot, label = t
            seen[label] = seen.get(label, 0) + 1
            out.append((seq, slot, label, seen[label]))
    return out


def placement_key(maps):
    """canonical form of task placement: per map, sorted list of per-worker ordered task lists"""
    return json.dumps([[m["fn"], sorted(m["placement"].values())] for m in maps])


def sim_multi(actors, rundir, home, sched=None, mtimes=None, dirs=(), shared=None, wall_cap=120.0, step_cap=100000,
              on_event=None, fault=None):
    """several complete IsoQuant invocations (each --threads 1) as concurrent actors under one hub.
    actors: [{"argv": [...], "log": name}].  Returns dict with exit_codes, trace, picks, probes, mtimes."""
    become_subreaper()
    os.makedirs(home, exist_ok=True)
    cfg = os.path.join(home, ".config", "IsoQuant")
    shared = list(shared) if shared is not None else [cfg, ".db"]
    templ = Templater(list(dirs) + [(home, "<home>")])
    chooser = make_chooser(sched)
    hub = Hub(chooser, fault=fault, templ=templ, step_cap=step_cap, wall_cap=wall_cap, mtimes=mtimes,
              nslots=max(2, len(actors)))
    hub.on_event = on_event
    sys.stdout.flush(); sys.stderr.flush()
    for i, a in enumerate(actors):
        pid = os.fork()
        if pid == 0:
            _actor_body(hub, i, a["argv"], home, rundir, os.path.join(rundir, a.get("log", "actor%d.log" % i)), (),
                        a.get("bufsize", 8192), shared=shared, logical_mtime=True, results_dir=rundir)
        hub.register(i, pid, "actor%d" % i if len(actors) > 1 else "actor")
    hub.close_actor_side()
    err = None
    res = {}
    try:
        res = hub.run(tuple(range(len(actors))))
    except HarnessError as e:
        hub.kill_all()
        err = str(e)
    finally:
        hub.close()
    res.update(trace=hub.trace, picks=list(chooser.picks), events=hub.ev_seq, harness_error=err, steps=hub.steps,
               probes=dict(hub.probes), mtimes=hub.mtimes, crashed=hub.crashed)
    res.setdefault("exit_codes", {})
    return res
