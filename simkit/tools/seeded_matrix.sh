#!/bin/bash
# Evaluate one archived seeded change against the quick check(s) of its property, in a scratch worktree of /repo
# (never touches /repo itself).  usage: seeded_matrix.sh <seeded-dir-name> [check ...]      env: VERIF_SEED, LANES
# whole archive:  ls /verif/seeded | xargs -P 4 -I{} /verif/simkit/tools/seeded_matrix.sh {}
N=$1; shift
ID=${N%%-*}
CHECKS="${@:-$ID}"
P=/verif/seeded/$N/patch.diff
W=/tmp/mx_$N
git -C /repo worktree add -q --detach $W HEAD || { echo "$N WORKTREE-FAIL"; exit 9; }
trap 'git -C /repo worktree remove --force '$W EXIT
if ! git -C $W apply $P 2>/dev/null; then
  if ! git -C $W apply -3 $P 2>/dev/null; then echo "$N PATCH-DOES-NOT-APPLY"; exit 8; fi
fi
for c in $CHECKS; do
  out=$(cd /verif && ISOQUANT_REPO=$W VERIF_NO_EVIDENCE=1 VERIF_LANES=${LANES:-6} timeout 3000 /venv/bin/python simkit/check.py $c --tier quick 2>&1)
  rc=$?
  echo "$N $c exit=$rc :: $(echo "$out" | grep -E "^$c quick" | tail -1)"
done
