"""Seeded synthetic workloads for IsoQuant: genome FASTA + annotation GTF + sorted/indexed BAM(s).

A workload is fully determined by its *spec* (a small JSON-able dict of knobs + seed).  build(spec, dir)
renders the files and returns the ground truth.  Nothing here may depend on PYTHONHASHSEED: no iteration
over sets/dicts of strings in a way that reaches the files (dicts are insertion ordered; sets are avoided).
"""
import gzip
import hashlib
import json
import os
import random

DEFAULT_SPEC = {
    "seed": 1,
    "n_chr": 3,            # chromosomes
    "genes_per_chr": 3,    # annotated genes per chromosome (before paralogs/antisense)
    "reads_per_iso": 4,    # reads emitted per (annotated or novel) isoform
    "novel": 1,            # number of genes that get an unannotated isoform with extra coverage
    "novel_cov": 6,
    "paralogs": 1,         # gene copies on another chromosome -> multi-mappers
    "antisense": 0,        # antisense genes sharing an intron with a host gene
    "mono": 1,             # mono-exonic genes
    "noncanon": 0,         # genes whose first intron is non-canonical
    "groups": 0,           # number of read groups (RG tag / id suffix / table); 0 = none
    "group_missing": 0,    # every k-th read lacks its group information (0 = never)
    "n_bams": 1,           # files per experiment
    "n_exp": 1,            # experiments
    "exp_mode": "same",    # "same": every experiment gets all reads; "split": disjoint random subsets
    "unmapped": 2,         # unmapped records per experiment (dealt over its files)
    "secondary_seq": 1,    # secondary records carry SEQ
    "supplementary": 1,    # number of supplementary records
    "lowmapq": 1,          # number of intergenic MAPQ-0 reads
    "intergenic": 1,       # number of intergenic MAPQ-60 reads
    "jitter": 1,           # max splice-site jitter of noisy reads (0 = exact)
    "truncate": 1,         # emit truncated reads
    "polya": 1,            # fraction style: 1 = most reads have tails, 0 = none
    "dup_records": 0,      # exact duplicate records
    "pre_ids": 0,          # annotation contains IsoQuant-style ids and exon_id attributes
    "gtf_meta": 1,         # gene/transcript records present (2: missing for every third gene)
    "equal_len": 0,        # make two chromosomes equally long
    "chr_order": 0,        # permutation index for chromosome length ranking (pads tails)
    "tie_perm": 0,         # permutation seed for record order among equal positions
    "novel_twin": 0,       # 1: genes with an unannotated isoform get a second, different one
    "novel_notail": 0,     # 1: reads of unannotated isoforms and of single-exon genes have no polyA tail (the rest of the library has: fraction >= 70%)
    "exp_polya": None,     # per-experiment list: 0 = this experiment's reads are polyA-trimmed
    "gene_naming": 0,      # 0: G<n>; 1: zg<n> (lower case, sorts after novel_gene_); 2: si:dkey-<n>
    "group_naming": 0,     # 0: grp<n>/g<nn>; 1: G<n> (sorts before NA); 2: <n>x (digit first); 3: mixed case; 4: numbers; 5: blanks at the ends
    "drop_chr_annotation": 0,  # genes of the last k chromosomes are left out of the GTF (reads stay)
    "readthrough": 0,      # k same-strand genes that duplicate another gene's first isoform under a new gene id
    "mirror_novel": 0,     # 1: also every gene with >= 5 exons and an unannotated isoform gets a mirror gene
    "mirror": 0,           # k antisense genes with exon coordinates identical to another gene's first isoform
    "intergenic_multi": 0, # k reads whose only usable alignments are tied multi-exon secondaries in gene-free loci
    "deep_gene": 0,        # 1: one gene gets ~230 reads (200/20 per isoform, 3 novel, 10 truncated); 2: a dedicated six-exon gene
                           #    with that coverage, an unannotated exon-skipping isoform with 3 reads and 10 tail-less reads that fit both
    "long_locus": 0,       # (4: as 1, both long genes on '+', read-through reads across the valley) 1: extra chromosome chrL with a > 64 kb read island that IsoQuant splits at a coverage valley; 2: the
                           #    valley gene's first exon spans the split point and two more of its reads start right of it
    "exp_bams": None,      # per-experiment number of files (overrides n_bams)
    "novel_one_file": 0,   # reads of unannotated isoforms all go to the first file of their experiment
    "illumina": None,      # per-experiment list: 1 = the experiment comes with a short-read BAM (junction reads on the
                           # chromosomes without annotation; some long reads there are 4 bp off at one splice site)
    "chr_naming": 0,       # 1: names with underscores and dots (NC_000067.6, chrUn_KI270, scaffold_12, ...)
    "split_gene": 0,       # 1: a gene whose two isoforms use disjoint exon sets, with another gene nested between them
    "decoy_chr": 0,        # 1: extra chromosome on which every alignment is filtered out (MAPQ 0, unspliced secondary, supplementary)
    "novel_locus": 0,      # 1: an unannotated multi-exon locus with good coverage on every chromosome (-> novel genes); 2: with
                           #    non-canonical (AA..TT) introns
    "pile": 0,             # 1: extra chromosome chrP: (a) >= 1024 short reads of a mono-exonic gene inside one 256-bp coverage bin,
                           #    (b) a > 64 kb island whose second part is deep (> 200 reads in one bin) and ends in a bin covered
                           #    by two reads only, one of them lying entirely inside that last bin
    "ambig_multi": 0,      # N reads with several alignment records whose kept record(s) name one gene but two isoforms:
                           #    even k: read covering only exons shared by two isoforms + a losing 3-exon intergenic secondary;
                           #    odd k: primary = isoform 1, secondary = isoform 2 of the same gene (tie inside one gene)
    "sq_order": 0,         # 1: the second, third ... file of an experiment lists the @SQ lines in another (rotated) order
    "bridge": 0,           # k read-through reads: last two exons of one gene + first two exons of the next gene on the chromosome
    "outside_exon": 0,     # k genes get reads (enough for a model) with an extra exon upstream of the annotated gene span
    "mapq_mix": 0,         # 1: every third read of an isoform gets a mapping quality from the cycle 5, 20, 1, 4, 59, 10
    "paralog_iso": 0,      # 1: paralog sources are chosen among genes with two isoforms that share >= 2 consecutive exons; two reads
                           #    per such gene cover only the shared exons (locally ambiguous) and have a secondary record on the paralog
    "tiny_exon": 0,        # 1: the first chromosome gets an annotated gene one of whose isoforms has a 1-bp middle exon (with reads)
    "hash_names": 0,       # 1: every third read name starts with '#' (a valid QNAME character)
    "softmask": 0,         # 1: the reference is soft-masked: every second 2-kb window of every chromosome is written in lower case
    "frag_gene": 0,        # 1: one two-isoform gene gets single-exon reads inside the exon that only its first isoform has; its spliced
                           #    reads go to the FIRST experiment only (later experiments see that isoform through unspliced reads alone)
    "group_tag": "RG",     # BAM tag that carries the group (C09: --read_group tag:<TAG>)
    "twin_chr": 0,         # 1: extra chromosome that is a copy of the first one (same coordinates and strands, own gene ids and reads);
                           #    2: its unannotated locus (novel_locus) carries splice sites of the other strand
    "novel_gene_overlap": 0,  # k unannotated transcripts inside an annotated gene's span with entirely novel (shifted) introns
    "bam_split": "random", # how reads are dealt into files: random | chunks (contiguous by position) | tiny (one file gets 1 read)
}

CHR_NAMES = ["chr1", "chr2", "chr10", "chrX", "chr3", "chrM", "chr11", "chr4"]
BASES = "ACGT"


def full_spec(spec):
    s = dict(DEFAULT_SPEC)
    s.update(spec or {})
    return s


def _rc(seq):
    return seq.translate(str.maketrans("ACGTN", "TGCAN"))[::-1]


class Gene:
    def __init__(self, gid, chrom, strand, exons):
        self.gid = gid
        self.chrom = chrom
        self.strand = strand
        self.exons = exons          # master exon list, 1-based closed, sorted
        self.isoforms = []          # list of (tid, exon index list)
        self.novel = []             # list of exon index lists (unannotated)
        self.paralog_of = None
        self.noncanon = False

    def span(self):
        return self.exons[0][0], self.exons[-1][1]


def _plant(seq, pos1, s):
    """write string s at 1-based position pos1 of list seq"""
    for i, c in enumerate(s):
        seq[pos1 - 1 + i] = c


def _plant_sites(seq, exons, strand, canonical=True):
    for (a, b), (c, d) in zip(exons[:-1], exons[1:]):
        istart, iend = b + 1, c - 1
        if canonical:
            if strand == "+":
                _plant(seq, istart, "GT"); _plant(seq, iend - 1, "AG")
            else:
                _plant(seq, istart, "CT"); _plant(seq, iend - 1, "AC")
        else:
            _plant(seq, istart, "AA"); _plant(seq, iend - 1, "TT")


def _shared_exons(g):
    """indices of >= 2 consecutive exons that the first two isoforms of g have in common (longest run), or None"""
    if len(g.isoforms) < 2:
        return None
    i1, i2 = g.isoforms[0][1], g.isoforms[1][1]
    best, cur = [], []
    for i in i1:
        if i in i2 and (not cur or (i1.index(i) == i1.index(cur[-1]) + 1 and i2.index(i) == i2.index(cur[-1]) + 1)):
            cur.append(i)
        else:
            cur = [i] if i in i2 else []
        if len(cur) > len(best):
            best = list(cur)
    return best if len(best) >= 2 else None


def group_name(s, k):
    ng, sch = s["groups"], s.get("group_naming", 0) % 6
    if sch == 5:
        # names that str.strip() would change (free-text tag values): trailing blank for even, leading blank for odd groups
        return ("lib %d " % k) if k % 2 == 0 else (" lib %d" % k)
    if sch == 4:
        return "%d" % (k + 1)         # purely numeric group names (e.g. haplotype tags HP:i:1)
    if sch == 1:
        return "G%d" % k
    if sch == 2:
        return "%dx" % k
    if sch == 3:
        return ["Alpha", "beta", "NB", "na", "Zeta", "delta", "Mu", "omega", "K9", "q1", "R2", "x0"][k % 12] + ("" if k < 12 else str(k))
    return "grp%d" % k if ng < 10 else "g%02d" % k


def gene_name(s, n):
    return ["G%d", "zg%d", "si:dkey-%d"][s.get("gene_naming", 0) % 3] % n


ALT_CHR_NAMES = ["NC_000067.6", "chrUn_KI270", "scaffold_12", "NW_0042.1", "chr_5", "ctg_7_alt", "NC_000077.1", "un_9"]


def generate(spec):
    """returns ground truth dict with python objects (chroms, genes, reads)"""
    s = full_spec(spec)
    CHR_NAMES = ALT_CHR_NAMES if s.get("chr_naming") else globals()["CHR_NAMES"]
    rg = random.Random("%d/genome" % s["seed"])
    n_chr = max(1, min(s["n_chr"], len(CHR_NAMES)))
    chroms = []   # (name, list of chars)
    genes = []
    layout = []   # per chr: current cursor
    gcount = 0
    for ci in range(n_chr):
        name = CHR_NAMES[ci]
        cursor = 400 + rg.randrange(200)
        cg = []
        n_genes = s["genes_per_chr"]
        for gi in range(n_genes):
            mono = (s["mono"] > 0 and gi == n_genes - 1 and n_genes > 1) or (s["mono"] > 1)
            n_ex = 1 if mono else rg.randrange(2, 6)
            exons = []
            pos = cursor
            for e in range(n_ex):
                elen = rg.randrange(120, 320) if not mono else rg.randrange(400, 800)
                exons.append((pos, pos + elen - 1))
                pos += elen + rg.randrange(150, 600)
            strand = "+" if rg.random() < 0.5 else "-"
            gcount += 1
            g = Gene(gene_name(s, gcount), name, strand, exons)
            cg.append(g)
            cursor = exons[-1][1] + 1200 + rg.randrange(800)
        layout.append(cursor)
        genes.append(cg)

    # isoforms
    for cg in genes:
        for g in cg:
            n = len(g.exons)
            g.isoforms.append((g.gid + ".t1", list(range(n))))
            if n >= 3 and rg.random() < 0.7:
                skip = rg.randrange(1, n - 1)
                g.isoforms.append((g.gid + ".t2", [i for i in range(n) if i != skip]))
            if n >= 4 and rg.random() < 0.5:
                g.isoforms.append((g.gid + ".t3", list(range(n - 1))))

    if s["split_gene"]:
        # host gene H: t1 = exons 0,1   t2 = exons 2,3 ; gene N nested between exon 1 and exon 2; three separate read islands
        pos = layout[0] + 300
        ex = []
        for k in range(4):
            ex.append((pos, pos + 200))
            pos += 200 + (260 if k != 1 else 2600)
        gcount += 1
        h = Gene(gene_name(s, gcount), CHR_NAMES[0], "+", ex)
        h.isoforms = [(h.gid + ".t1", [0, 1]), (h.gid + ".t2", [2, 3])]
        npos = ex[1][1] + 700
        gcount += 1
        n_ = Gene(gene_name(s, gcount), CHR_NAMES[0], "-", [(npos, npos + 220), (npos + 520, npos + 760)])
        n_.isoforms = [(n_.gid + ".t1", [0, 1])]
        h.no_extra = n_.no_extra = True
        genes[0] += [h, n_]
        layout[0] = ex[-1][1] + 1500
    if s["tiny_exon"]:
        pos = layout[0] + 400
        ex = [(pos, pos + 180), (pos + 420, pos + 420), (pos + 700, pos + 900), (pos + 1150, pos + 1330)]
        gcount += 1
        tg_ = Gene(gene_name(s, gcount), CHR_NAMES[0], "+", ex)
        tg_.isoforms = [(tg_.gid + ".t1", [0, 1, 2, 3]), (tg_.gid + ".t2", [0, 2, 3])]
        tg_.no_extra = True
        tg_.no_trunc = True
        genes[0].append(tg_)
        layout[0] = ex[-1][1] + 1400
    deep2 = None
    if s["deep_gene"] >= 2:
        # dedicated gene DG: K1 = A B C D E F (200 full-length reads), K2 = A C D F (20), unannotated N = A B C D F (3 full-length
        # reads: built, then filtered out again by the relative coverage cut-off), 10 reads A B C D' without tail that fit K1 and N
        pos = layout[0] + 500
        ex = []
        for k in range(6):
            ex.append((pos, pos + 160 + 10 * k))
            pos += 160 + 10 * k + 240
        gcount += 1
        deep2 = Gene(gene_name(s, gcount), CHR_NAMES[0], "+", ex)
        deep2.isoforms = [(deep2.gid + ".t1", [0, 1, 2, 3, 4, 5]), (deep2.gid + ".t2", [0, 2, 3, 5])]
        deep2.novel = [[0, 1, 2, 3, 5]]
        deep2.no_extra = True
        genes[0].append(deep2)
        layout[0] = ex[-1][1] + 1500
    if s["novel_locus"]:
        for ci in range(n_chr):
            pos = layout[ci] + 400
            ex = [(pos, pos + 180), (pos + 420, pos + 610), (pos + 900, pos + 1150)]
            gcount += 1
            nl = Gene("NL%d" % gcount, CHR_NAMES[ci], "+" if ci % 2 == 0 else "-", ex)
            nl.isoforms = [("novel:NL%d:0" % gcount, [0, 1, 2])]
            nl.hidden = True
            nl.no_extra = True
            if s["novel_locus"] >= 2:
                nl.noncanon = True      # AA..TT introns: the strand of the novel models rests on polyA/polyT evidence alone
            genes[ci].append(nl)
            layout[ci] = ex[-1][1] + 1200
    flat = [g for cg in genes for g in cg if not getattr(g, "no_extra", False)]
    # candidates for unannotated isoforms are taken round-robin over the chromosomes (novel models on several chromosomes)
    multi = [g for _, _, g in sorted(((gi, ci, g) for ci, cg in enumerate(genes) for gi, g in enumerate(cg)
                                      if len(g.exons) >= 3 and not getattr(g, "no_extra", False)),
                                     key=lambda x: (x[0], x[1]))]
    # novel isoforms
    for g in multi[: s["novel"]]:
        n = len(g.exons)
        known = [iso[1] for iso in g.isoforms]
        cands = []
        for skip in range(1, n - 1):
            c = [i for i in range(n) if i != skip]
            if c not in known:
                cands.append(c)
        if n >= 4:
            c = [0] + list(range(2, n))
            if c not in known and c not in cands:
                cands.append(c)
        if cands:
            pick = rg.randrange(len(cands))
            g.novel.append(cands[pick])
            if s.get("novel_twin") and len(cands) >= 2:
                # a second unannotated isoform of the same gene (several novel models of one gene in one chromosome's storage)
                g.novel.append(cands[(pick + 1) % len(cands)])
    for g in [x for x in flat if len(x.exons) >= 2][: s["noncanon"]]:
        g.noncanon = True
    # reads with an extra exon outside the annotated span of their gene (300 bp before its first exon, canonical sites)
    for g in [x for x in flat if len(x.exons) >= 2 and not x.noncanon][-s["outside_exon"]:] if s["outside_exon"] else []:
        a0 = g.exons[0][0]
        if a0 > 700:
            g.outside = (a0 - 420, a0 - 260)
    # paralogs: copy gene structure to the tail of the next chromosome
    paralogs = []
    if n_chr >= 2:
        pool_ = [g for g in flat if len(g.exons) >= 2]
        if s["paralog_iso"]:
            pool_.sort(key=lambda g: 1 if _shared_exons(g) else 0)     # stable: genes with a shared segment go last
        srcs = pool_[-s["paralogs"]:] if s["paralogs"] else []
        for g in srcs:
            ci = CHR_NAMES.index(g.chrom)
            tj = (ci + 1) % n_chr
            off = layout[tj] - g.exons[0][0]
            gcount += 1
            p = Gene(gene_name(s, gcount), CHR_NAMES[tj], g.strand, [(a + off, b + off) for a, b in g.exons])
            p.isoforms = [(p.gid + "." + tid.split(".")[-1], idx) for tid, idx in g.isoforms]
            p.paralog_of = g
            p.noncanon = g.noncanon
            layout[tj] = p.exons[-1][1] + 1500
            paralogs.append(p)
            genes[tj].append(p)

    # antisense genes sharing the first intron of a host
    hosts = [g for g in flat if len(g.exons) >= 3 and not g.noncanon and g not in [p.paralog_of for p in paralogs]]
    for g in hosts[: s["antisense"]]:
        (a, b), (c, d) = g.exons[0], g.exons[1]
        gcount += 1
        ex = [(b - 90, b), (c, c + 70)]
        ag = Gene(gene_name(s, gcount), g.chrom, "-" if g.strand == "+" else "+", ex)
        ag.isoforms = [(ag.gid + ".t1", [0, 1])]
        ag.antisense_of = g
        genes[CHR_NAMES.index(g.chrom)].append(ag)

    # unannotated transcripts inside an annotated gene whose introns are all novel (every splice site shifted by 14-25 bp); hosts of
    # an antisense gene are taken first (the novel transcript then overlaps two annotated genes), the rest from the tail
    if s["novel_gene_overlap"]:
        pool_s = [x for x in flat if len(x.exons) >= 3 and not x.noncanon]
        targets = [g for g in hosts[: s["antisense"]] if g in pool_s][: s["novel_gene_overlap"]]
        for g in reversed(pool_s):
            if len(targets) >= s["novel_gene_overlap"]:
                break
            if g not in targets:
                targets.append(g)
        for g in targets:
            ex = []
            for i, (a, b) in enumerate(g.exons):
                na = a if i == 0 else a + 14 + rg.randrange(10)
                nb = b if i == len(g.exons) - 1 else b - 14 - rg.randrange(10)
                ex.append((na, nb))
            g.shifted = ex

    # read-through genes: same strand, same structure as a host's first isoform, new gene id (annotation only)
    hosts2 = [g for g in flat if len(g.exons) >= 3]
    for g in hosts2[: s["readthrough"]]:
        gcount += 1
        rt = Gene(gene_name(s, gcount), g.chrom, g.strand, list(g.exons))
        rt.isoforms = [(rt.gid + ".t1", list(range(len(g.exons))))]
        rt.annotation_only = True
        genes[CHR_NAMES.index(g.chrom)].append(rt)
    # mirror genes: identical exon coordinates on the opposite strand (annotation only)
    mirror_hosts = [x for x in flat if len(x.exons) >= 2][-s["mirror"]:] if s["mirror"] else []
    if s.get("mirror_novel"):
        # ... and every gene with >= 5 exons that has an unannotated isoform: its annotated introns are annotated on both strands,
        # the strand of the unannotated isoform has to come from the genome
        mirror_hosts += [x for x in flat if len(x.exons) >= 5 and x.novel and x not in mirror_hosts]
    for g in mirror_hosts:
        gcount += 1
        mg = Gene(gene_name(s, gcount), g.chrom, "-" if g.strand == "+" else "+", list(g.exons))
        mg.isoforms = [(mg.gid + ".t1", list(range(len(g.exons))))]
        mg.annotation_only = True
        genes[CHR_NAMES.index(g.chrom)].append(mg)

    # leftovers of an earlier IsoQuant run in a gene-free stretch at the chromosome end: mono-exonic novel genes whose
    # transcripts carry the numbers 1..6 with both suffixes (annotation only)
    if s["pre_ids"] >= 2:
        for ci in range(n_chr):
            pos = layout[ci] + 200
            # the reserved numbers differ between chromosomes (a leak of one chromosome's reserved set into another's
            # numbering must be visible)
            for num in range(1 + 2 * ci, 7 + 2 * ci):
                for suf in ("nic", "nnic"):
                    gcount += 1
                    pg = Gene("novel_gene_%s_%d" % (CHR_NAMES[ci], 7 + 2 * ci + 2 * (num - 1 - 2 * ci) + (suf == "nnic")), CHR_NAMES[ci],
                              "+" if num % 2 else "-", [(pos, pos + 150)])
                    pg.isoforms = [("transcript%d.%s.%s" % (num, CHR_NAMES[ci], suf), [0])]
                    pg.annotation_only = True
                    pg.fixed_ids = True
                    genes[ci].append(pg)
                    pos += 400
            layout[ci] = pos + 300

    # chromosome lengths: distinct, ranking controlled by chr_order
    base_len = [layout[i] + 300 for i in range(n_chr)]
    order = list(range(n_chr))
    random.Random("%d/order/%d" % (s["seed"], s["chr_order"])).shuffle(order) if s["chr_order"] else None
    target = max(base_len) + 200 * n_chr
    lens = [0] * n_chr
    for rank, ci in enumerate(order):
        lens[ci] = target - 200 * rank + rg.randrange(50)
    lens = [max(l, b) for l, b in zip(lens, base_len)]
    if s["equal_len"] and n_chr >= 2:
        lens[order[1]] = lens[order[0]]

    for ci in range(n_chr):
        rs = random.Random("%d/seq/%s" % (s["seed"], CHR_NAMES[ci]))
        seq = [BASES[rs.randrange(4)] for _ in range(lens[ci])]
        chroms.append([CHR_NAMES[ci], seq])
    names = [CHR_NAMES[i] for i in range(n_chr)]
    long_genes = []
    if s["long_locus"]:
        rs = random.Random("%d/seq/chrL" % s["seed"])
        L = 92000 + rg.randrange(500)
        while L in lens:
            L += 1
        chroms.append(["chrL", [BASES[rs.randrange(4)] for _ in range(L)]])
        names.append("chrL")
        # the long island starts 60..200 bp into a 256-bp coverage bin, so that the small island before it ends in the same bin
        o = 84 + rg.randrange(116)
        gcount += 1
        l1 = Gene(gene_name(s, gcount), "chrL", "+", [(1000 + o, 1200 + o), (12000 + o, 12200 + o), (24000 + o, 24200 + o), (36000 + o, 36300 + o)])
        l1.isoforms = [(l1.gid + ".t1", [0, 1, 2, 3])]
        gcount += 1
        l2 = Gene(gene_name(s, gcount), "chrL", "-", [(37000 + o, 37300 + o), (49000 + o, 49200 + o), (61000 + o, 61200 + o), (73000 + o, 73300 + o)])
        l2.isoforms = [(l2.gid + ".t1", [0, 1, 2, 3])]
        gcount += 1
        # small annotated gene sitting in the coverage valley between the two long genes: its single read straddles the split
        if s["long_locus"] in (2, 3):
            # variant 2: the first exon of the valley gene spans the split point, its only intron lies right of it; a second
            # read of that isoform starts right of the split point (the isoform is seen in both processing regions)
            lb = Gene(gene_name(s, gcount), "chrL", "+", [(36240 + o, 36900 + o), (36990 + o, 37080 + o)])
        else:
            lb = Gene(gene_name(s, gcount), "chrL", "+", [(36240 + o, 36410 + o), (36700 + o, 37080 + o)])
        lb.isoforms = [(lb.gid + ".t1", [0, 1])]
        long_genes = [l1, l2, lb]
        genes.append(long_genes)
        if s["long_locus"] == 3:
            _plant_sites(chroms[-1][1], [lb.exons[1], (lb.exons[1][1] + 330, lb.exons[1][1] + 480)], "+", canonical=True)
    rt_genes = []
    if s["long_locus"] == 4:
        # variant 4 (in addition to chrL): chromosome chrR with two small same-strand genes 38 kb apart, nothing between them, and
        # read-through reads that join them: one read island > 32 kb with a coverage valley, the bridging alignment is handed to
        # both processing regions and meets another gene in each
        rs = random.Random("%d/seq/chrR" % s["seed"])
        RL = 45000 + rg.randrange(200)
        while RL in lens or RL in [len(sq) for _, sq in chroms]:
            RL += 1
        chroms.append(["chrR", [BASES[rs.randrange(4)] for _ in range(RL)]])
        names.append("chrR")
        gcount += 1
        ga = Gene(gene_name(s, gcount), "chrR", "+", [(1001, 1200), (2001, 2300)])
        ga.isoforms = [(ga.gid + ".t1", [0, 1])]
        gcount += 1
        gb = Gene(gene_name(s, gcount), "chrR", "+", [(40001, 40200), (41001, 41300)])
        gb.isoforms = [(gb.gid + ".t1", [0, 1])]
        for g_ in (ga, gb):
            g_.no_extra = True
            g_.no_trunc = True
        rt_genes = [ga, gb]
        genes.append(rt_genes)
    pile_gene = None
    if s["pile"]:
        rs = random.Random("%d/seq/chrP" % s["seed"])
        PL = 78000 + rg.randrange(300)
        while PL in lens or PL in [len(sq) for _, sq in chroms]:
            PL += 1
        chroms.append(["chrP", [BASES[rs.randrange(4)] for _ in range(PL)]])
        names.append("chrP")
        gcount += 1
        # 0-based 1039..1249 lies inside coverage bin 4 (1024..1279)
        pile_gene = Gene(gene_name(s, gcount), "chrP", "+", [(1040, 1250)])
        pile_gene.isoforms = [(pile_gene.gid + ".t1", [0])]
        pile_gene.no_extra = True
        genes.append([pile_gene])
    cidx = {n: i for i, n in enumerate(names)}
    # break accidental homopolymers is unnecessary; plant splice sites
    for cg in genes:
        for g in cg:
            if g.paralog_of is not None or getattr(g, "antisense_of", None) is not None or getattr(g, "annotation_only", False):
                continue
            _plant_sites(chroms[cidx[g.chrom]][1], g.exons, g.strand, canonical=not g.noncanon)
            if getattr(g, "shifted", None):
                _plant_sites(chroms[cidx[g.chrom]][1], g.shifted, g.strand, canonical=True)
            if getattr(g, "outside", None):
                _plant_sites(chroms[cidx[g.chrom]][1], [g.outside, g.exons[0]], g.strand, canonical=True)
            # all pairs of exons that may become adjacent through skipping share the same donor/acceptor dinucleotides
    for p in paralogs:
        src = p.paralog_of
        sseq = chroms[cidx[src.chrom]][1]
        dseq = chroms[cidx[p.chrom]][1]
        a, b = src.span()
        off = p.exons[0][0] - a
        pad = 100
        dseq[a - pad - 1 + off: b + pad + off] = sseq[a - pad - 1: b + pad]
    # avoid genomic A-runs right after transcript ends (fake polyA): force a non-A/T base downstream
    for cg in genes:
        for g in cg:
            seq = chroms[cidx[g.chrom]][1]
            a, b = g.span()
            for k in range(1, 9):
                if b + k <= len(seq) and seq[b + k - 1] == "A":
                    seq[b + k - 1] = "C"
                if a - k >= 1 and seq[a - k - 1] == "T":
                    seq[a - k - 1] = "G"
    twin_genes = []
    if s["twin_chr"]:
        src_name, src_seq = chroms[0]
        tname = "chrT" if not s.get("chr_naming") else "NT_twin.1"
        tlen = len(src_seq) + 37
        while tlen in [len(sq) for _, sq in chroms]:
            tlen += 1
        rs = random.Random("%d/seq/twin" % s["seed"])
        chroms.append([tname, list(src_seq) + [BASES[rs.randrange(4)] for _ in range(tlen - len(src_seq))]])
        names.append(tname)
        cidx[tname] = len(chroms) - 1
        for g in list(genes[0]):
            if g.paralog_of is not None or getattr(g, "antisense_of", None) is not None or getattr(g, "fixed_ids", False):
                continue
            gcount += 1
            tg = Gene(gene_name(s, gcount), tname, g.strand, list(g.exons))
            tg.isoforms = [(tg.gid + "." + tid.split(".")[-1], idx) for tid, idx in g.isoforms]
            tg.novel = [list(x) for x in g.novel]
            tg.annotation_only = getattr(g, "annotation_only", False)
            tg.hidden = getattr(g, "hidden", False)
            tg.no_extra = True
            tg.no_trunc = getattr(g, "no_trunc", False)
            tg.twin = True
            if s["twin_chr"] >= 2 and tg.hidden and len(tg.exons) >= 2 and not g.noncanon:
                # variant 2: the unannotated locus of the twin has the same coordinates but splice sites of the OTHER strand
                tg.strand = "-" if g.strand == "+" else "+"
                _plant_sites(chroms[-1][1], tg.exons, tg.strand, canonical=True)
            twin_genes.append(tg)
        genes.append(twin_genes)
    if s["decoy_chr"]:
        dname = "chrD" if not s.get("chr_naming") else "decoy_1"
        rs = random.Random("%d/seq/decoy" % s["seed"])
        dl = 3000 + rg.randrange(100)
        while dl in [len(sq) for _, sq in chroms]:
            dl += 1
        chroms.append([dname, [BASES[rs.randrange(4)] for _ in range(dl)]])
        names.append(dname)
        cidx[dname] = len(chroms) - 1
    chroms = [(n, "".join(sq)) for n, sq in chroms]
    if s["softmask"]:
        chroms = [(n, "".join(sq[i:i + 2000].lower() if (i // 2000) % 2 else sq[i:i + 2000] for i in range(0, len(sq), 2000)))
                  for n, sq in chroms]

    # ---- reads
    rr = random.Random("%d/reads" % s["seed"])
    reads = []
    seqs = dict(chroms)

    def blocks_seq(chrom, blocks):
        return "".join(seqs[chrom][a - 1:b] for a, b in blocks)

    def mk_record(chrom, blocks, strand, polya, flag_extra=0, mapq=60, with_seq=True):
        cig = []
        for i, (a, b) in enumerate(blocks):
            if i:
                cig.append((3, a - blocks[i - 1][1] - 1))
            cig.append((0, b - a + 1))
        sq = blocks_seq(chrom, blocks)
        tail = 24
        if polya:
            if strand == "+":
                sq = sq + "A" * tail
                cig.append((4, tail))
            else:
                sq = "T" * tail + sq
                cig.insert(0, (4, tail))
        flag = (16 if strand == "-" else 0) | flag_extra
        return {"chr": chrom, "pos": blocks[0][0] - 1, "cigar": cig, "seq": sq if with_seq else None,
                "flag": flag, "mapq": mapq, "blocks": [list(x) for x in blocks]}

    rid = 0
    allgenes = [g for cg in genes for g in cg]
    para_of = {p.paralog_of.gid: p for p in paralogs}
    deep = None
    if s["deep_gene"] == 1:
        cands = [g for g in allgenes if len(g.isoforms) >= 2 and g.paralog_of is None and g.gid not in para_of
                 and not getattr(g, "no_extra", False)]
        deep = cands[0] if cands else None
        if deep is not None and not deep.novel:
            n = len(deep.exons)
            known = [iso[1] for iso in deep.isoforms]
            for skip in range(1, n - 1):
                c = [i for i in range(n) if i != skip]
                if c not in known:
                    deep.novel.append(c)
                    break
    for g in allgenes:
        if getattr(g, "annotation_only", False):
            continue
        variants = [(tid, idx, s["reads_per_iso"] if not str(tid).startswith("novel:") else max(5, s["novel_cov"]),
                     str(tid).startswith("novel:")) for tid, idx in g.isoforms]
        variants += [("novel:%s:%d" % (g.gid, k), idx, s["novel_cov"], True) for k, idx in enumerate(g.novel)]
        if g is deep2:
            variants = [(g.isoforms[0][0], g.isoforms[0][1], 200, False), (g.isoforms[1][0], g.isoforms[1][1], 20, False),
                        ("novel:%s:0" % g.gid, g.novel[0], 3, True)]
        if g is deep:
            variants = [(tid, idx, 200 if k == 0 else 20, False) for k, (tid, idx) in enumerate(g.isoforms)]
            variants += [("novel:%s:%d" % (g.gid, k), idx, 3, True) for k, idx in enumerate(g.novel)]
        if g in long_genes:
            variants = [(tid, idx, 6 if g is not long_genes[2] else 1, False) for tid, idx in g.isoforms]
        if g is pile_gene:
            variants = [(tid, idx, 1100, False) for tid, idx in g.isoforms]
        if "notail_genes" not in locals():
            # (novel_notail = 2: also every read of the first annotated gene of the first chromosome is tail-less)
            notail_genes = set(cg[0].gid for cg in genes[:1] if cg)
        for tid, idx, cov, is_novel in variants:
            for k in range(cov):
                blocks = [g.exons[i] for i in idx]
                kind = "exact"
                if s["truncate"] and not is_novel and len(blocks) >= 3 and k % 4 == 3 and not getattr(g, "no_trunc", False):
                    # 5' truncated read (keeps the polyA end)
                    blocks = blocks[1:] if g.strand == "+" else blocks[:-1]
                    kind = "trunc"
                if s["jitter"] and len(blocks) >= 2 and k % 4 == 2:
                    j = rr.randrange(-s["jitter"], s["jitter"] + 1)
                    (a, b), (c, d) = blocks[0], blocks[1]
                    blocks = [(a, b + j), (c, d)] + list(blocks[2:])
                    kind = "jitter%+d" % j
                # ragged ends
                a0, b0 = blocks[0]
                a1, b1 = blocks[-1]
                ds, de = rr.randrange(0, 12), rr.randrange(0, 12)
                if g.strand == "+":
                    de = 0 if s["polya"] else de
                else:
                    ds = 0 if s["polya"] else ds
                if len(blocks) == 1:
                    blocks = [(a0 + ds, b0 - de)]
                else:
                    blocks = [(a0 + ds, b0)] + list(blocks[1:-1]) + [(a1, b1 - de)]
                polya = bool(s["polya"]) and (k % 5 != 4)
                if ((is_novel or len(g.exons) == 1) and s.get("novel_notail")) or \
                        (s.get("novel_notail", 0) >= 2 and g.gid in notail_genes):
                    # the reads of unannotated isoforms carry no tail: such a model is reported only when the library-wide tail
                    # statistics say that tails are not required
                    polya = False
                rid += 1
                mq = 60
                if s["mapq_mix"] and k % 3 == 1:
                    mq = [5, 20, 1, 4, 59, 10][(rid // 3) % 6]
                recs = [mk_record(g.chrom, blocks, g.strand, polya, mapq=mq)]
                # multi-mapping counterpart
                other = None
                if g.gid in para_of:
                    other = para_of[g.gid]
                elif g.paralog_of is not None:
                    other = g.paralog_of
                if other is not None:
                    off = other.exons[0][0] - g.exons[0][0]
                    ob = [(a + off, b + off) for a, b in blocks]
                    recs.append(mk_record(other.chrom, ob, other.strand, polya, flag_extra=256,
                                          mapq=60, with_seq=bool(s["secondary_seq"])))
                reads.append({"id": "r%04d" % rid, "src": tid, "gene": g.gid, "kind": kind, "records": recs})

    if deep2 is not None:
        a3, b3 = deep2.exons[3]
        for k in range(10):
            rid += 1
            blocks = [deep2.exons[0], deep2.exons[1], deep2.exons[2], (a3, b3 - 30 - k)]
            reads.append({"id": "r%04d" % rid, "src": deep2.isoforms[0][0], "gene": deep2.gid, "kind": "deep_trunc3",
                          "records": [mk_record(deep2.chrom, blocks, "+", False)]})
    # intergenic / low mapq / supplementary
    def intergenic_block(ci):
        name, sq = chroms[ci]
        # before first gene
        return [(40, 40 + 180)]
    for k in range(s["intergenic"]):
        ci = k % n_chr
        rid += 1
        reads.append({"id": "r%04d" % rid, "src": "intergenic", "gene": None, "kind": "intergenic",
                      "records": [mk_record(chroms[ci][0], intergenic_block(ci), "+", False)]})
    for k in range(s["lowmapq"]):
        ci = (k + 1) % n_chr
        rid += 1
        reads.append({"id": "r%04d" % rid, "src": "intergenic", "gene": None, "kind": "lowmapq",
                      "records": [mk_record(chroms[ci][0], [(60, 230)], "+", False, mapq=0)]})
    if s.get("illumina") and s["drop_chr_annotation"]:
        plain = [c for c, _ in chroms if c not in ("chrL", "chrP", "chrT", "chrD", "NT_twin.1", "decoy_1")]
        dropped_ = plain[len(plain) - s["drop_chr_annotation"]:]
        for g in allgenes:
            if g.chrom in dropped_ and len(g.exons) >= 2 and g.paralog_of is None and g.gid not in para_of \
                    and not getattr(g, "annotation_only", False):
                idx = g.isoforms[0][1]
                blocks = [g.exons[i] for i in idx]
                # the second exon starts 4 bp early: the intron ends 4 bp before the true (short-read) acceptor
                blocks = [blocks[0], (blocks[1][0] - 4, blocks[1][1])] + blocks[2:]
                for k in range(2):
                    rid += 1
                    reads.append({"id": "r%04d" % rid, "src": g.isoforms[0][0], "gene": g.gid, "kind": "off4",
                                  "records": [mk_record(g.chrom, blocks, g.strand, False)]})
    for g in allgenes:
        if getattr(g, "shifted", None) and g.paralog_of is None and g.gid not in para_of:
            for k in range(max(4, s["novel_cov"])):
                rid += 1
                reads.append({"id": "r%04d" % rid, "src": "novel:%s:shifted" % g.gid, "gene": g.gid, "kind": "shifted",
                              "records": [mk_record(g.chrom, g.shifted, g.strand, bool(s["polya"]))]})
    for g in allgenes:
        if getattr(g, "outside", None) and g.paralog_of is None and g.gid not in para_of:
            for k in range(max(4, s["novel_cov"])):
                rid += 1
                blocks = [g.outside] + [g.exons[i] for i in g.isoforms[0][1]]
                reads.append({"id": "r%04d" % rid, "src": "novel:%s:outside" % g.gid, "gene": g.gid, "kind": "outside_exon",
                              "records": [mk_record(g.chrom, blocks, g.strand, bool(s["polya"]))]})
            if s["outside_exon"] >= 2 and not getattr(g, "no_trunc", False):
                # a later read of the same locus that sticks out of the annotated span on the OTHER side, and less far: the
                # reference window of the locus has to grow with every such read, not to be rebuilt from the gene span
                rid += 1
                ex = [g.exons[i] for i in g.isoforms[0][1]]
                blocks = [(ex[0][0] + 20, ex[0][1])] + ex[1:-1] + [(ex[-1][0], ex[-1][1] + 35)]
                reads.append({"id": "r%04d" % rid, "src": g.isoforms[0][0], "gene": g.gid, "kind": "sticks_out_downstream",
                              "records": [mk_record(g.chrom, blocks, g.strand, False)]})
    if long_genes:
        l1, l2, lb = long_genes
        e1 = l1.exons[-1][1]
        e2 = l2.exons[-1][1]
        s1 = l1.exons[0][0]
        # the read of the valley gene also has a (losing) multi-exon secondary alignment upstream on the same chromosome
        for r in reads:
            if r["gene"] == lb.gid:
                r["records"].append(mk_record("chrL", [(60, 120), (160, 230), (270, 330)], "+", False, flag_extra=256,
                                              with_seq=bool(s["secondary_seq"])))
                r["kind"] += "+upstream_secondary"
        extra = []
        # a separate small island that ends in the same 256-bp bin in which the long island starts
        for blocks in ([(s1 - 500, s1 - 300)], [(s1 - 350, s1 - 40)], [(s1 - 240, s1 - 45)]):
            extra.append(("prelude", blocks))
        for ln in (30, 65, 110, 170):
            extra.append(("leading_short", [(s1, s1 + ln)]))
        for d in (60, 110, 170, 230, 300):
            extra.append(("tail", [(e2 - d, e2 - 10)]))
        for d in (40, 120, 250):
            extra.append(("valley_edge", [(e1 - d - 60, e1 - d)]))
        for kind, blocks in extra:
            rid += 1
            reads.append({"id": "r%04d" % rid, "src": kind, "gene": None, "kind": kind,
                          "records": [mk_record("chrL", [(max(1, a), b) for a, b in blocks], "+", False)]})
        if s["long_locus"] in (2, 3):
            for k in range(2):
                rid += 1
                blocks = [(lb.exons[0][0] + 480 + 9 * k, lb.exons[0][1]), lb.exons[1]]
                reads.append({"id": "r%04d" % rid, "src": lb.isoforms[0][0], "gene": lb.gid, "kind": "valley_gene_right_of_split",
                              "records": [mk_record("chrL", blocks, "+", bool(s["polya"]))]})
            if s["long_locus"] == 3:
                # variant 3: an unannotated isoform of the valley gene, seen in the second region only, with an extra exon beyond
                # the annotated end of the gene (the gene record is written when the first region is dumped)
                e3 = (lb.exons[1][1] + 330, lb.exons[1][1] + 480)
                lb.novel_downstream = e3
                for k in range(max(4, s["novel_cov"])):
                    rid += 1
                    blocks = [(lb.exons[0][0] + 500 + 7 * k, lb.exons[0][1]), lb.exons[1], e3]
                    reads.append({"id": "r%04d" % rid, "src": "novel:%s:downstream" % lb.gid, "gene": lb.gid, "kind": "valley_gene_novel_downstream",
                                  "records": [mk_record("chrL", blocks, "+", bool(s["polya"]))]})
    if rt_genes:
        ga, gb = rt_genes
        for k in range(1):          # one bridging read: the valley stays a valley (coverage 1)
            rid += 1
            reads.append({"id": "r%04d" % rid, "src": "readthrough_across_split", "gene": None, "kind": "readthrough_across_split",
                          "records": [mk_record("chrR", list(ga.exons) + [gb.exons[0], (gb.exons[1][0], gb.exons[1][1] - 11 * k)], "+", False)]})
    if pile_gene is not None:
        extra = []
        for k in range(3):
            extra.append(("pile_left", [(5000 + 7 * k, 5200), (39000, 39300 - 5 * k)]))
        extra.append(("pile_bridge", [(39250, 40100)]))
        for k in range(214):
            extra.append(("pile_deep", [(40050 + k % 30, 40200 - k % 7)]))
        for k in range(4):
            extra.append(("pile_right", [(40060 + 3 * k, 40300), (75000, 75300 - 2 * k)]))
        extra.append(("pile_tail_x", [(75200, 75600)]))
        extra.append(("pile_tail_y", [(75560, 75700)]))
        for kind, blocks in extra:
            rid += 1
            reads.append({"id": "r%04d" % rid, "src": kind, "gene": None, "kind": kind,
                          "records": [mk_record("chrP", blocks, "+", False)]})
    if s["decoy_chr"]:
        dname = "chrD" if not s.get("chr_naming") else "decoy_1"
        rid += 1
        reads.append({"id": "r%04d" % rid, "src": "decoy", "gene": None, "kind": "decoy_mapq0",
                      "records": [mk_record(dname, [(200, 460)], "+", False, mapq=0)]})
        rid += 1
        reads.append({"id": "r%04d" % rid, "src": "decoy", "gene": None, "kind": "decoy_mapq0",
                      "records": [mk_record(dname, [(900, 1210)], "-", False, mapq=0)]})
        if reads:
            # an unspliced secondary and a supplementary record of reads whose primary alignment is elsewhere
            r0 = reads[0]
            r0["records"].append(mk_record(dname, [(1500, 1720)], "+", False, flag_extra=256, with_seq=bool(s["secondary_seq"])))
            r0["kind"] += "+decoy_secondary"
            r1 = reads[min(1, len(reads) - 1)]
            if r1 is not r0:
                r1["records"].append(mk_record(dname, [(2000, 2150)], "+", False, flag_extra=2048))
                r1["kind"] += "+decoy_supp"
    for k in range(s["intergenic_multi"]):
        if len(chroms) < 2:
            break
        ca, cb = chroms[k % 2][0], chroms[(k + 1) % 2][0]
        blocks = [(30 + k, 85 + k), (120 + k, 180 + k), (215 + k, 270 + k)]
        rid += 1
        recs = [mk_record(chroms[(k + 2) % len(chroms)][0], [(300, 380)], "+", False, mapq=0),
                mk_record(ca, blocks, "+", False, flag_extra=256, with_seq=bool(s["secondary_seq"])),
                mk_record(cb, blocks, "+", False, flag_extra=256, with_seq=bool(s["secondary_seq"]))]
        reads.append({"id": "r%04d" % rid, "src": "intergenic", "gene": None, "kind": "intergenic_multi", "records": recs})
    if s["bridge"]:
        pairs = []
        for cg in genes:
            plain = sorted([g for g in cg if g.paralog_of is None and g.gid not in para_of and not getattr(g, "no_extra", False)
                            and not getattr(g, "annotation_only", False) and getattr(g, "antisense_of", None) is None
                            and g not in long_genes and g is not pile_gene], key=lambda g: g.span())
            for ga, gb in zip(plain[:-1], plain[1:]):
                if ga.span()[1] + 100 < gb.span()[0] and ga.chrom == gb.chrom:
                    pairs.append((ga, gb))
        for k in range(s["bridge"]):
            if not pairs:
                break
            ga, gb = pairs[(k * 3) % len(pairs)]
            blocks = list(ga.exons[-2:]) + list(gb.exons[:2])
            rid += 1
            reads.append({"id": "r%04d" % rid, "src": "bridge", "gene": None, "kind": "bridge:%s-%s" % (ga.gid, gb.gid),
                          "records": [mk_record(ga.chrom, blocks, ga.strand, False)]})
    if s["paralog_iso"]:
        for g in allgenes:
            if g.gid in para_of and _shared_exons(g):
                other = para_of[g.gid]
                off = other.exons[0][0] - g.exons[0][0]
                for k in range(2):
                    rid += 1
                    blocks = [g.exons[i] for i in _shared_exons(g)]
                    ob = [(a + off, b + off) for a, b in blocks]
                    reads.append({"id": "r%04d" % rid, "src": g.isoforms[0][0], "gene": g.gid, "kind": "shared_exons+paralog_secondary",
                                  "records": [mk_record(g.chrom, blocks, g.strand, False),
                                              mk_record(other.chrom, ob, other.strand, False, flag_extra=256,
                                                        with_seq=bool(s["secondary_seq"]))]})
    frag_gid = None
    if s["frag_gene"]:
        cands_f = [g for g in allgenes if len(g.isoforms) >= 2 and g.paralog_of is None and g.gid not in para_of
                   and not getattr(g, "no_extra", False) and not getattr(g, "annotation_only", False) and g is not deep
                   and g not in long_genes and not g.novel and not getattr(g, "shifted", None)
                   and len([i for i in g.isoforms[0][1] if i not in g.isoforms[1][1]]) == 1]
        if cands_f:
            g = cands_f[0]
            frag_gid = g.gid
            only = [i for i in g.isoforms[0][1] if i not in g.isoforms[1][1]][0]
            ea, eb = g.exons[only]
            for k in range(4):
                rid += 1
                reads.append({"id": "r%04d" % rid, "src": g.isoforms[0][0], "gene": g.gid, "kind": "fragment",
                              "records": [mk_record(g.chrom, [(ea + 8 + k, eb - 8 - k)], g.strand, False)]})
    if s["ambig_multi"]:
        cands = [g for g in allgenes if len(g.isoforms) >= 2 and g.paralog_of is None and g.gid not in para_of
                 and not getattr(g, "no_extra", False) and not getattr(g, "annotation_only", False) and g is not deep
                 and g not in long_genes and len(g.isoforms[1][1]) >= 2]
        for k in range(s["ambig_multi"]):
            if not cands:
                break
            g = cands[(k // 2) % len(cands)]
            i1, i2 = g.isoforms[0][1], g.isoforms[1][1]
            shared = None
            missing = [i for i in i1 if i not in i2]
            if len(missing) == 1 and len(i2) == len(i1) - 1 and 0 < missing[0] < len(i1) - 1:
                left, right = i1[:missing[0]], i1[missing[0] + 1:]
                shared = max((left, right), key=len)
                if len(shared) < 2:
                    shared = None
            rid += 1
            if k % 2 == 0 and shared is not None:
                other_chr = [c for c, _ in chroms if c != g.chrom and c not in ("chrL", "chrP", "chrD", "decoy_1")]
                oc = other_chr[k % len(other_chr)] if other_chr else g.chrom
                j = 3 * k
                recs = [mk_record(g.chrom, [g.exons[i] for i in shared], g.strand, False),
                        mk_record(oc, [(33 + j, 88 + j), (123 + j, 183 + j), (218 + j, 273 + j)], "+", False, flag_extra=256,
                                  with_seq=bool(s["secondary_seq"]))]
                kind = "ambig_shared+intergenic_secondary"
            else:
                recs = [mk_record(g.chrom, [g.exons[i] for i in i1], g.strand, False),
                        mk_record(g.chrom, [g.exons[i] for i in i2], g.strand, False, flag_extra=256,
                                  with_seq=bool(s["secondary_seq"]))]
                kind = "two_isoforms_one_gene"
            reads.append({"id": "r%04d" % rid, "src": g.isoforms[0][0], "gene": g.gid, "kind": kind, "records": recs})
    for k in range(s["supplementary"]):
        g = allgenes[k % len(allgenes)]
        rid += 1
        blocks = [g.exons[0]]
        prim = mk_record(g.chrom, [g.exons[i] for i in g.isoforms[0][1]], g.strand, False)
        sup = mk_record(g.chrom, blocks, g.strand, False, flag_extra=2048)
        reads.append({"id": "r%04d" % rid, "src": g.isoforms[0][0], "gene": g.gid, "kind": "with_supp",
                      "records": [prim, sup]})
    for k in range(s["dup_records"]):
        if reads:
            r = reads[(k * 7) % len(reads)]
            r["records"].append(dict(r["records"][0]))
            r["kind"] += "+dup"

    # groups
    ng = s["groups"]
    for i, r in enumerate(reads):
        grp = None
        if ng:
            grp = group_name(s, i * 7 % ng)
            if s["group_missing"] and i % s["group_missing"] == 0:
                grp = None
        r["group"] = grp

    # experiments and files
    n_exp = max(1, s["n_exp"])
    exps = []
    for e in range(n_exp):
        if s["exp_mode"] == "same" or n_exp == 1:
            members = list(range(len(reads)))
        else:
            re_ = random.Random("%d/exp/%d" % (s["seed"], e))
            members = [i for i in range(len(reads)) if re_.random() < 0.6]
        nb = max(1, s["n_bams"])
        if s.get("exp_bams") and e < len(s["exp_bams"]):
            nb = max(1, s["exp_bams"][e])
        rb = random.Random("%d/bam/%d" % (s["seed"], e))
        files = [[] for _ in range(nb)]
        mode = s.get("bam_split", "random")
        if nb > 1 and mode == "chunks":
            # contiguous by (chromosome order, position): every file is exhausted at a different place
            order_ = sorted(members, key=lambda i: (cidx[reads[i]["records"][0]["chr"]], reads[i]["records"][0]["pos"], i))
            cuts = sorted(rb.sample(range(1, max(2, len(order_))), min(nb - 1, max(1, len(order_) - 1))))
            bounds = [0] + cuts + [len(order_)]
            for fi in range(nb):
                files[fi] = order_[bounds[fi]:bounds[fi + 1]] if fi + 1 < len(bounds) else []
        elif nb > 1 and mode == "tiny":
            order_ = sorted(members, key=lambda i: (cidx[reads[i]["records"][0]["chr"]], reads[i]["records"][0]["pos"], i))
            files[nb - 1] = order_[:1]
            rest = order_[1:]
            cut = len(rest) // 3 + rb.randrange(max(1, len(rest) // 3))
            if nb == 2:
                files[0] = rest
            else:
                files[1] = rest[:cut]
                files[0] = rest[cut:]
                for i in range(3, nb):
                    files[i - 1], files[0] = files[0][: len(files[0]) // 2], files[0][len(files[0]) // 2:]
        else:
            for i in members:
                files[rb.randrange(nb) if nb > 1 else 0].append(i)
        if frag_gid is not None and e >= 1:
            drop = set(i for i in range(len(reads)) if reads[i].get("gene") == frag_gid and reads[i]["kind"] != "fragment")
            files = [[i for i in fl if i not in drop] for fl in files]
        if s.get("novel_one_file") and nb > 1:
            for fi in range(1, nb):
                moved = [i for i in files[fi] if str(reads[i]["src"]).startswith("novel:")]
                files[fi] = [i for i in files[fi] if i not in moved]
                files[0] += moved
        exps.append({"name": "E%d" % e, "files": files})
    return {"spec": s, "chroms": chroms, "genes": allgenes, "reads": reads, "exps": exps}


def _gtf_lines(truth):
    s = truth["spec"]
    lines = []
    exon_ids = {}
    by_chr = {}
    for g in truth["genes"]:
        by_chr.setdefault(g.chrom, []).append(g)
    n = 0
    dropped = [c for c, _ in truth["chroms"] if c not in ("chrL", "chrP")][len([c for c, _ in truth["chroms"] if c not in ("chrL", "chrP")]) - s["drop_chr_annotation"]:] \
        if s["drop_chr_annotation"] else []
    used_tids = set()
    ordinary_count = {}
    for chrom_i, (chrom, _) in enumerate(truth["chroms"]):
        if chrom in dropped:
            for g in by_chr.get(chrom, []):
                g.unannotated = True
            continue
        first_on_chr = True
        for g in sorted(by_chr.get(chrom, []), key=lambda g: g.span()):
            if getattr(g, "hidden", False):
                g.unannotated = True
                continue
            gid = g.gid
            a, b = g.span()
            if getattr(g, "fixed_ids", False):
                pass
            elif s["pre_ids"] and g.gid.endswith(("2", "5")):
                gid = "novel_gene_%s_%d" % (chrom, 300 + n)
            n += 1
            g.out_gid = gid
            # gtf_meta 2: every third gene comes without its gene and transcript records (exons only)
            meta_here = bool(s["gtf_meta"]) and not (s["gtf_meta"] == 2 and n % 3 == 1)
            if meta_here:
                lines.append((chrom, "gene", a, b, g.strand, 'gene_id "%s";' % gid))
            g.out_tids = []
            for k, (tid, idx) in enumerate(g.isoforms):
                ex = [g.exons[i] for i in idx]
                otid = tid
                if getattr(g, "fixed_ids", False):
                    pass
                elif s["pre_ids"] and k == 0 and first_on_chr and s["pre_ids"] >= 2:
                    otid = "transcript:ENSX%05d" % n            # Ensembl-GFF3 style id that merely starts with "transcript"
                elif s["pre_ids"]:
                    # ids left by an earlier IsoQuant run, attached to ordinary genes: the smallest numbers a new run would
                    # otherwise hand out on this chromosome (pre_ids >= 2: the leftovers block uses transcript numbers
                    # 1+2c..6+2c and novel-gene numbers 7+2c..18+2c, so these start at 19+2c), both suffixes per number
                    base_num = 1 if s["pre_ids"] < 2 else 19 + 2 * chrom_i
                    j = ordinary_count.get(chrom, 0)
                    ordinary_count[chrom] = j + 1
                    otid = "transcript%d.%s.%s" % (base_num + j // 2, chrom, "nic" if j % 2 == 0 else "nnic")
                    while otid in used_tids:
                        j += 1
                        otid = "transcript%d.%s.%s" % (base_num + j // 2, chrom, "nic" if j % 2 == 0 else "nnic")
                used_tids.add(otid)
                first_on_chr = False
                g.out_tids.append(otid)
                if meta_here:
                    lines.append((chrom, "transcript", ex[0][0], ex[-1][1], g.strand,
                                  'gene_id "%s"; transcript_id "%s";' % (gid, otid)))
                for (ea, eb) in ex:
                    attr = 'gene_id "%s"; transcript_id "%s";' % (gid, otid)
                    if s["pre_ids"]:
                        key = (chrom, ea, eb, g.strand)
                        if key not in exon_ids:
                            exon_ids[key] = "%s.%d" % (chrom, len(exon_ids) + 1) if len(exon_ids) % 2 else "EX%05d" % (len(exon_ids) + 1)
                        attr += ' exon_id "%s";' % exon_ids[key]
                    lines.append((chrom, "exon", ea, eb, g.strand, attr))
    return ["%s\tsim\t%s\t%d\t%d\t.\t%s\t.\t%s\n" % (c, f, a, b, st, at) for c, f, a, b, st, at in lines]


def build(spec, outdir, gtf_gz=False, write_bams=True):
    """render files into outdir; returns (truth, paths)"""
    import pysam
    truth = generate(spec)
    s = truth["spec"]
    os.makedirs(outdir, exist_ok=True)
    fa = os.path.join(outdir, "genome.fa")
    with open(fa, "w") as f:
        for name, seq in truth["chroms"]:
            f.write(">%s\n" % name)
            for i in range(0, len(seq), 80):
                f.write(seq[i:i + 80] + "\n")
    gtf = os.path.join(outdir, "genes.gtf")
    lines = _gtf_lines(truth)
    with open(gtf, "w") as f:
        f.writelines(lines)
    paths = {"fasta": fa, "gtf": gtf, "bams": [], "exps": []}
    if gtf_gz:
        gz = gtf + ".gz"
        with open(gz, "wb") as raw:
            with gzip.GzipFile(fileobj=raw, mode="wb", mtime=0) as f:
                f.write("".join(lines).encode())
        paths["gtf_gz"] = gz
    header = {"HD": {"VN": "1.6", "SO": "coordinate"},
              "SQ": [{"SN": n, "LN": len(sq)} for n, sq in truth["chroms"]]}
    ng = s["groups"]
    if ng:
        header["RG"] = [{"ID": group_name(s, i)} for i in range(ng)]
    cidx = {n: i for i, (n, _) in enumerate(truth["chroms"])}
    table = os.path.join(outdir, "groups.tsv")
    with open(table, "w") as f:
        for r in truth["reads"]:
            if r["group"] is not None:
                f.write("%s\t%s\n" % (read_name(r, s), r["group"]))
    paths["group_table"] = table
    if not write_bams:
        return truth, paths
    if s.get("illumina"):
        sp = os.path.join(outdir, "illumina.bam")
        recs = []
        seqs = dict(truth["chroms"])
        k = 0
        for g in truth["genes"]:
            if getattr(g, "annotation_only", False):
                continue
            ex = [g.exons[i] for i in g.isoforms[0][1]]
            for (a, b), (c, d) in zip(ex[:-1], ex[1:]):
                for rep in range(3):
                    k += 1
                    l1, l2 = min(60, b - a + 1), min(60, d - c + 1)
                    recs.append((cidx[g.chrom], b - l1, [(0, l1), (3, c - b - 1), (0, l2)],
                                 seqs[g.chrom][b - l1:b] + seqs[g.chrom][c - 1:c - 1 + l2], "sr%d" % k))
        recs.sort(key=lambda x: (x[0], x[1]))
        with pysam.AlignmentFile(sp, "wb", header={"HD": header["HD"], "SQ": header["SQ"]}) as out:
            for ci_, pos, cig, sq, nm in recs:
                a = pysam.AlignedSegment(out.header)
                a.query_name, a.flag, a.reference_id, a.reference_start, a.mapping_quality = nm, 0, ci_, pos, 60
                a.cigartuples = cig
                a.query_sequence = sq
                a.next_reference_id = -1
                a.next_reference_start = -1
                out.write(a)
        pysam.index(sp)
        paths["illumina"] = sp
    for e, exp in enumerate(truth["exps"]):
        efiles = []
        for fi, members in enumerate(exp["files"]):
            p = os.path.join(outdir, "%s.f%d.bam" % (exp["name"], fi))
            recs = []
            # per-file order of the reference sequences in the header (coordinate-sorted with respect to its own header)
            nsq = len(header["SQ"])
            rot = fi % nsq if s.get("sq_order") else 0
            sq_of = {ci_: (ci_ - rot) % nsq for ci_ in range(nsq)}
            fheader = dict(header, SQ=[header["SQ"][(j + rot) % nsq] for j in range(nsq)])
            for i in members:
                r = truth["reads"][i]
                for k, rec in enumerate(r["records"]):
                    recs.append((sq_of[cidx[rec["chr"]]], rec["pos"], i, k, r, rec))
            tp = random.Random("%d/tie/%d" % (s["seed"], s["tie_perm"]))
            tiekey = {(i, k): tp.random() for (_, _, i, k, _, _) in recs} if s["tie_perm"] else {}
            recs.sort(key=lambda x: (x[0], x[1], tiekey.get((x[2], x[3]), 0), x[2], x[3]))
            with pysam.AlignmentFile(p, "wb", header=fheader) as out:
                for ci, pos, i, k, r, rec in recs:
                    a = pysam.AlignedSegment(out.header)
                    a.query_name = read_name(r, s)
                    a.flag = rec["flag"]
                    a.reference_id = ci
                    a.reference_start = pos
                    a.mapping_quality = rec["mapq"]
                    cig, sq = rec["cigar"], rec["seq"]
                    ep = s.get("exp_polya")
                    if ep and e < len(ep) and not ep[e]:
                        # this experiment's library is polyA-trimmed: drop the soft-clipped tails
                        if cig and cig[0][0] == 4:
                            sq = sq[cig[0][1]:] if sq else sq
                            cig = cig[1:]
                        if cig and cig[-1][0] == 4:
                            sq = sq[:-cig[-1][1]] if sq else sq
                            cig = cig[:-1]
                    if rec["flag"] & 2048:
                        # hard clip the rest, as aligners do
                        a.cigartuples = cig + [(5, 50)]
                    else:
                        a.cigartuples = cig
                    a.query_sequence = sq
                    a.next_reference_id = -1
                    a.next_reference_start = -1
                    tags = [("NM", 0)]
                    if r["group"] is not None:
                        gt = s.get("group_tag") or "RG"
                        # integer-typed tags (HP:i:1) when the tag is HP and the group name is a number
                        tags.append((gt, int(r["group"]) if gt == "HP" and r["group"].isdigit() else r["group"]))
                    a.set_tags(tags)
                    out.write(a)
                for u in range(fi, s["unmapped"], len(exp["files"])):
                    a = pysam.AlignedSegment(out.header)
                    a.query_name = "un%d_%d_%d" % (e, fi, u)
                    a.flag = 4
                    a.reference_id = -1
                    a.reference_start = -1
                    a.mapping_quality = 0
                    a.query_sequence = "ACGTACGTAC"
                    a.next_reference_id = -1
                    a.next_reference_start = -1
                    out.write(a)
            pysam.index(p)
            efiles.append(p)
        ill = s.get("illumina")
        paths["exps"].append({"name": exp["name"], "bams": efiles,
                              "illumina": [paths["illumina"]] if ill and e < len(ill) and ill[e] else None})
    return truth, paths


def read_name(r, s):
    """read id as written to BAM: suffix carries the group for --read_group read_id:_"""
    rid = r["id"]
    if s.get("hash_names") and (int(rid[1:]) % 3 == 0 or r.get("kind") == "intergenic"):
        # the intergenic reads at positions 40-220 are the first records of their chromosome
        rid = "#" + rid
    if s["groups"] and r["group"] is not None:
        return "%s_%s" % (rid, r["group"])
    return rid


def digest_inputs(outdir):
    h = hashlib.sha256()
    for fn in sorted(os.listdir(outdir)):
        if fn.endswith((".fa", ".gtf", ".tsv")):
            h.update(fn.encode())
            with open(os.path.join(outdir, fn), "rb") as f:
                h.update(f.read())
        elif fn.endswith(".bam"):
            import pysam
            h.update(fn.encode())
            with pysam.AlignmentFile(os.path.join(outdir, fn), "rb", check_sq=False) as b:
                for a in b.fetch(until_eof=True):
                    h.update(a.to_string().encode())
    return h.hexdigest()


def random_spec(rng, profile="small"):
    """swarm-style: every knob drawn per run"""
    s = {"seed": rng.randrange(1 << 30)}
    if profile == "tiny":
        s.update(n_chr=rng.choice([1, 2]), genes_per_chr=rng.choice([1, 2]), reads_per_iso=rng.choice([2, 3]),
                 novel=rng.choice([0, 1]), novel_cov=4, paralogs=rng.choice([0, 1]), unmapped=rng.choice([0, 1]),
                 supplementary=0, lowmapq=0, intergenic=rng.choice([0, 1]))
        return s
    s.update(n_chr=rng.choice([2, 3, 3, 4, 5]), genes_per_chr=rng.choice([2, 3, 4]),
             reads_per_iso=rng.choice([3, 4, 6]), novel=rng.choice([0, 1, 2]), novel_cov=rng.choice([4, 6, 9]),
             paralogs=rng.choice([0, 1, 2]), antisense=rng.choice([0, 0, 1]), mono=rng.choice([0, 1]),
             noncanon=rng.choice([0, 0, 1]), unmapped=rng.choice([0, 2, 5]), secondary_seq=rng.choice([1, 1, 0]),
             supplementary=rng.choice([0, 1]), lowmapq=rng.choice([0, 1, 2]), intergenic=rng.choice([0, 1, 2]),
             jitter=rng.choice([0, 1, 3]), truncate=rng.choice([0, 1]), polya=rng.choice([1, 1, 1, 0]),
             dup_records=rng.choice([0, 0, 1]), pre_ids=rng.choice([0, 0, 1, 2]), equal_len=rng.choice([0, 0, 1]),
             chr_order=rng.choice([0, 1, 2]), gene_naming=rng.choice([0, 0, 1, 2]), group_naming=rng.choice([0, 1, 2, 3]),
             drop_chr_annotation=rng.choice([0, 0, 0, 1]), readthrough=rng.choice([0, 0, 1]), mirror=rng.choice([0, 0, 1]),
             intergenic_multi=rng.choice([0, 0, 1, 2]), deep_gene=rng.choice([0] * 9 + [1, 2]),
             long_locus=rng.choice([0, 0, 0, 0, 1, 2]), bam_split=rng.choice(["random", "random", "chunks", "tiny"]),
             novel_gene_overlap=rng.choice([0, 0, 1]), chr_naming=rng.choice([0, 0, 0, 1]), split_gene=rng.choice([0, 0, 1]),
             decoy_chr=rng.choice([0, 0, 1]), novel_locus=rng.choice([0, 0, 1]), twin_chr=rng.choice([0, 0, 0, 1, 2]),
             bridge=rng.choice([0, 0, 0, 2]), outside_exon=rng.choice([0, 0, 0, 1]), ambig_multi=rng.choice([0, 0, 0, 3]),
             sq_order=rng.choice([0, 0, 1]), tiny_exon=rng.choice([0, 0, 0, 1]), softmask=rng.choice([0, 0, 0, 1]))
    return s


if __name__ == "__main__":
    import sys
    t, p = build(json.loads(sys.argv[1]) if len(sys.argv) > 1 else {}, sys.argv[2] if len(sys.argv) > 2 else "/dev/shm/wl")
    print(json.dumps(p, indent=1), len(t["reads"]), digest_inputs(os.path.dirname(p["fasta"])))
